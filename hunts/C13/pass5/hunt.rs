// Hunt for violations of property C13 (hash / HMAC / PBKDF2 equal the standard algorithms).
// Oracles: from-scratch implementations below (constants derived from the prime roots with
// num-bigint, not copied from the crates under test) plus published test vectors.
#![allow(clippy::needless_range_loop)]

use bsv::hash::Hash;
use bsv::hash::hash160_digest::Hash160;
use bsv::hash::sha256d_digest::Sha256d;
use bsv::{get_hash_digest, ExtendedPrivateKey, PBKDF2Hashes, ReversibleDigest, Sha256r, SigningHash, KDF};
use digest::generic_array::typenum::Unsigned;
use digest::{BlockInput, Digest, FixedOutput, Reset, Update};
use num_bigint::BigUint;

// ---------------------------------------------------------------------------------------------
// Reference implementations (written from FIPS 180-4, the RIPEMD-160 paper, RFC 2104, RFC 8018)
// ---------------------------------------------------------------------------------------------

fn primes(n: usize) -> Vec<u64> {
    let mut v = Vec::new();
    let mut c = 2u64;
    while v.len() < n {
        if (2..c).take_while(|d| d * d <= c).all(|d| c % d != 0) {
            v.push(c);
        }
        c += 1;
    }
    v
}

// first `bits` bits of the fractional part of the k-th root of p
fn frac_root(p: u64, k: u32, bits: u32) -> u64 {
    let shifted = BigUint::from(p) << (bits * k) as usize;
    let root = shifted.nth_root(k);
    let modulus = BigUint::from(1u8) << bits as usize;
    let r = root % modulus;
    let d = r.to_u64_digits();
    if d.is_empty() {
        0
    } else {
        d[0]
    }
}

fn md_pad(msg: &[u8], block: usize, len_bytes: usize, big_endian: bool) -> Vec<u8> {
    let mut m = msg.to_vec();
    m.push(0x80);
    while m.len() % block != block - len_bytes {
        m.push(0);
    }
    let bits = (msg.len() as u128) * 8;
    if big_endian {
        let all = bits.to_be_bytes();
        m.extend_from_slice(&all[16 - len_bytes..]);
    } else {
        let all = bits.to_le_bytes();
        m.extend_from_slice(&all[..len_bytes]);
    }
    assert_eq!(m.len() % block, 0);
    m
}

fn ref_sha1(msg: &[u8]) -> Vec<u8> {
    let mut h: [u32; 5] = [0x67452301, 0xEFCDAB89, 0x98BADCFE, 0x10325476, 0xC3D2E1F0];
    let m = md_pad(msg, 64, 8, true);
    for blk in m.chunks(64) {
        let mut w = [0u32; 80];
        for t in 0..16 {
            w[t] = u32::from_be_bytes([blk[4 * t], blk[4 * t + 1], blk[4 * t + 2], blk[4 * t + 3]]);
        }
        for t in 16..80 {
            w[t] = (w[t - 3] ^ w[t - 8] ^ w[t - 14] ^ w[t - 16]).rotate_left(1);
        }
        let (mut a, mut b, mut c, mut d, mut e) = (h[0], h[1], h[2], h[3], h[4]);
        for t in 0..80 {
            let (f, k) = match t {
                0..=19 => ((b & c) | (!b & d), 0x5A827999u32),
                20..=39 => (b ^ c ^ d, 0x6ED9EBA1),
                40..=59 => ((b & c) | (b & d) | (c & d), 0x8F1BBCDC),
                _ => (b ^ c ^ d, 0xCA62C1D6),
            };
            let tmp = a.rotate_left(5).wrapping_add(f).wrapping_add(e).wrapping_add(k).wrapping_add(w[t]);
            e = d;
            d = c;
            c = b.rotate_left(30);
            b = a;
            a = tmp;
        }
        h[0] = h[0].wrapping_add(a);
        h[1] = h[1].wrapping_add(b);
        h[2] = h[2].wrapping_add(c);
        h[3] = h[3].wrapping_add(d);
        h[4] = h[4].wrapping_add(e);
    }
    h.iter().flat_map(|x| x.to_be_bytes()).collect()
}

struct Consts {
    k256: Vec<u32>,
    h256: Vec<u32>,
    k512: Vec<u64>,
    h512: Vec<u64>,
}

fn consts() -> &'static Consts {
    use std::sync::OnceLock;
    static C: OnceLock<Consts> = OnceLock::new();
    C.get_or_init(|| {
        let p = primes(80);
        Consts {
            k256: p[..64].iter().map(|&p| frac_root(p, 3, 32) as u32).collect(),
            h256: p[..8].iter().map(|&p| frac_root(p, 2, 32) as u32).collect(),
            k512: p.iter().map(|&p| frac_root(p, 3, 64)).collect(),
            h512: p[..8].iter().map(|&p| frac_root(p, 2, 64)).collect(),
        }
    })
}

fn ref_sha256(msg: &[u8]) -> Vec<u8> {
    let c = consts();
    let mut h: Vec<u32> = c.h256.clone();
    let m = md_pad(msg, 64, 8, true);
    for blk in m.chunks(64) {
        let mut w = [0u32; 64];
        for t in 0..16 {
            w[t] = u32::from_be_bytes([blk[4 * t], blk[4 * t + 1], blk[4 * t + 2], blk[4 * t + 3]]);
        }
        for t in 16..64 {
            let s0 = w[t - 15].rotate_right(7) ^ w[t - 15].rotate_right(18) ^ (w[t - 15] >> 3);
            let s1 = w[t - 2].rotate_right(17) ^ w[t - 2].rotate_right(19) ^ (w[t - 2] >> 10);
            w[t] = s1.wrapping_add(w[t - 7]).wrapping_add(s0).wrapping_add(w[t - 16]);
        }
        let mut v: Vec<u32> = h.clone();
        for t in 0..64 {
            let (a, b, cc, e, f, g) = (v[0], v[1], v[2], v[4], v[5], v[6]);
            let big1 = e.rotate_right(6) ^ e.rotate_right(11) ^ e.rotate_right(25);
            let ch = (e & f) ^ (!e & g);
            let t1 = v[7].wrapping_add(big1).wrapping_add(ch).wrapping_add(c.k256[t]).wrapping_add(w[t]);
            let big0 = a.rotate_right(2) ^ a.rotate_right(13) ^ a.rotate_right(22);
            let maj = (a & b) ^ (a & cc) ^ (b & cc);
            let t2 = big0.wrapping_add(maj);
            v[7] = v[6];
            v[6] = v[5];
            v[5] = v[4];
            v[4] = v[3].wrapping_add(t1);
            v[3] = v[2];
            v[2] = v[1];
            v[1] = v[0];
            v[0] = t1.wrapping_add(t2);
        }
        for i in 0..8 {
            h[i] = h[i].wrapping_add(v[i]);
        }
    }
    h.iter().flat_map(|x| x.to_be_bytes()).collect()
}

fn ref_sha512(msg: &[u8]) -> Vec<u8> {
    let c = consts();
    let mut h: Vec<u64> = c.h512.clone();
    let m = md_pad(msg, 128, 16, true);
    for blk in m.chunks(128) {
        let mut w = [0u64; 80];
        for t in 0..16 {
            let mut b = [0u8; 8];
            b.copy_from_slice(&blk[8 * t..8 * t + 8]);
            w[t] = u64::from_be_bytes(b);
        }
        for t in 16..80 {
            let s0 = w[t - 15].rotate_right(1) ^ w[t - 15].rotate_right(8) ^ (w[t - 15] >> 7);
            let s1 = w[t - 2].rotate_right(19) ^ w[t - 2].rotate_right(61) ^ (w[t - 2] >> 6);
            w[t] = s1.wrapping_add(w[t - 7]).wrapping_add(s0).wrapping_add(w[t - 16]);
        }
        let mut v: Vec<u64> = h.clone();
        for t in 0..80 {
            let (a, b, cc, e, f, g) = (v[0], v[1], v[2], v[4], v[5], v[6]);
            let big1 = e.rotate_right(14) ^ e.rotate_right(18) ^ e.rotate_right(41);
            let ch = (e & f) ^ (!e & g);
            let t1 = v[7].wrapping_add(big1).wrapping_add(ch).wrapping_add(c.k512[t]).wrapping_add(w[t]);
            let big0 = a.rotate_right(28) ^ a.rotate_right(34) ^ a.rotate_right(39);
            let maj = (a & b) ^ (a & cc) ^ (b & cc);
            let t2 = big0.wrapping_add(maj);
            v[7] = v[6];
            v[6] = v[5];
            v[5] = v[4];
            v[4] = v[3].wrapping_add(t1);
            v[3] = v[2];
            v[2] = v[1];
            v[1] = v[0];
            v[0] = t1.wrapping_add(t2);
        }
        for i in 0..8 {
            h[i] = h[i].wrapping_add(v[i]);
        }
    }
    h.iter().flat_map(|x| x.to_be_bytes()).collect()
}

const RL: [usize; 80] = [
    0, 1, 2, 3, 4, 5, 6, 7, 8, 9, 10, 11, 12, 13, 14, 15, 7, 4, 13, 1, 10, 6, 15, 3, 12, 0, 9, 5, 2, 14, 11, 8, 3, 10, 14, 4, 9, 15, 8, 1, 2, 7, 0, 6, 13, 11, 5, 12, 1, 9, 11, 10, 0, 8, 12, 4,
    13, 3, 7, 15, 14, 5, 6, 2, 4, 0, 5, 9, 7, 12, 2, 10, 14, 1, 3, 8, 11, 6, 15, 13,
];
const RR: [usize; 80] = [
    5, 14, 7, 0, 9, 2, 11, 4, 13, 6, 15, 8, 1, 10, 3, 12, 6, 11, 3, 7, 0, 13, 5, 10, 14, 15, 8, 12, 4, 9, 1, 2, 15, 5, 1, 3, 7, 14, 6, 9, 11, 8, 12, 2, 10, 0, 4, 13, 8, 6, 4, 1, 3, 11, 15, 0, 5,
    12, 2, 13, 9, 7, 10, 14, 12, 15, 10, 4, 1, 5, 8, 7, 6, 2, 13, 14, 0, 3, 9, 11,
];
const SL: [u32; 80] = [
    11, 14, 15, 12, 5, 8, 7, 9, 11, 13, 14, 15, 6, 7, 9, 8, 7, 6, 8, 13, 11, 9, 7, 15, 7, 12, 15, 9, 11, 7, 13, 12, 11, 13, 6, 7, 14, 9, 13, 15, 14, 8, 13, 6, 5, 12, 7, 5, 11, 12, 14, 15, 14, 15,
    9, 8, 9, 14, 5, 6, 8, 6, 5, 12, 9, 15, 5, 11, 6, 8, 13, 12, 5, 12, 13, 14, 11, 8, 5, 6,
];
const SR: [u32; 80] = [
    8, 9, 9, 11, 13, 15, 15, 5, 7, 7, 8, 11, 14, 14, 12, 6, 9, 13, 15, 7, 12, 8, 9, 11, 7, 7, 12, 7, 6, 15, 13, 11, 9, 7, 15, 11, 8, 6, 6, 14, 12, 13, 5, 14, 13, 13, 7, 5, 15, 5, 8, 11, 14, 14, 6,
    14, 6, 9, 12, 9, 12, 5, 15, 8, 8, 5, 12, 9, 12, 5, 14, 6, 8, 13, 6, 5, 15, 13, 11, 11,
];

fn rmd_f(j: usize, x: u32, y: u32, z: u32) -> u32 {
    match j / 16 {
        0 => x ^ y ^ z,
        1 => (x & y) | (!x & z),
        2 => (x | !y) ^ z,
        3 => (x & z) | (y & !z),
        _ => x ^ (y | !z),
    }
}

fn ref_rmd160(msg: &[u8]) -> Vec<u8> {
    const KL: [u32; 5] = [0, 0x5A827999, 0x6ED9EBA1, 0x8F1BBCDC, 0xA953FD4E];
    const KR: [u32; 5] = [0x50A28BE6, 0x5C4DD124, 0x6D703EF3, 0x7A6D76E9, 0];
    let mut h: [u32; 5] = [0x67452301, 0xEFCDAB89, 0x98BADCFE, 0x10325476, 0xC3D2E1F0];
    let m = md_pad(msg, 64, 8, false);
    for blk in m.chunks(64) {
        let mut x = [0u32; 16];
        for t in 0..16 {
            x[t] = u32::from_le_bytes([blk[4 * t], blk[4 * t + 1], blk[4 * t + 2], blk[4 * t + 3]]);
        }
        let (mut a, mut b, mut c, mut d, mut e) = (h[0], h[1], h[2], h[3], h[4]);
        let (mut a2, mut b2, mut c2, mut d2, mut e2) = (h[0], h[1], h[2], h[3], h[4]);
        for j in 0..80 {
            let t = a.wrapping_add(rmd_f(j, b, c, d)).wrapping_add(x[RL[j]]).wrapping_add(KL[j / 16]).rotate_left(SL[j]).wrapping_add(e);
            a = e;
            e = d;
            d = c.rotate_left(10);
            c = b;
            b = t;
            let t = a2.wrapping_add(rmd_f(79 - j, b2, c2, d2)).wrapping_add(x[RR[j]]).wrapping_add(KR[j / 16]).rotate_left(SR[j]).wrapping_add(e2);
            a2 = e2;
            e2 = d2;
            d2 = c2.rotate_left(10);
            c2 = b2;
            b2 = t;
        }
        let t = h[1].wrapping_add(c).wrapping_add(d2);
        h[1] = h[2].wrapping_add(d).wrapping_add(e2);
        h[2] = h[3].wrapping_add(e).wrapping_add(a2);
        h[3] = h[4].wrapping_add(a).wrapping_add(b2);
        h[4] = h[0].wrapping_add(b).wrapping_add(c2);
        h[0] = t;
    }
    h.iter().flat_map(|x| x.to_le_bytes()).collect()
}

fn ref_sha256d(m: &[u8]) -> Vec<u8> {
    ref_sha256(&ref_sha256(m))
}
fn ref_hash160(m: &[u8]) -> Vec<u8> {
    ref_rmd160(&ref_sha256(m))
}

type HashFn = fn(&[u8]) -> Vec<u8>;

// RFC 2104
fn ref_hmac(h: HashFn, block: usize, key: &[u8], msg: &[u8]) -> Vec<u8> {
    let mut k = if key.len() > block { h(key) } else { key.to_vec() };
    k.resize(block, 0);
    let mut inner: Vec<u8> = k.iter().map(|b| b ^ 0x36).collect();
    inner.extend_from_slice(msg);
    let mut outer: Vec<u8> = k.iter().map(|b| b ^ 0x5c).collect();
    outer.extend_from_slice(&h(&inner));
    h(&outer)
}

// RFC 8018 section 5.2
fn ref_pbkdf2(h: HashFn, block: usize, pw: &[u8], salt: &[u8], c: u32, dklen: usize) -> Vec<u8> {
    let mut out = Vec::new();
    let mut i = 1u32;
    while out.len() < dklen {
        let mut s = salt.to_vec();
        s.extend_from_slice(&i.to_be_bytes());
        let mut u = ref_hmac(h, block, pw, &s);
        let mut t = u.clone();
        for _ in 1..c {
            u = ref_hmac(h, block, pw, &u);
            for (a, b) in t.iter_mut().zip(u.iter()) {
                *a ^= b;
            }
        }
        out.extend_from_slice(&t);
        i += 1;
    }
    out.truncate(dklen);
    out
}

struct Rng(u64);
impl Rng {
    fn next(&mut self) -> u64 {
        // splitmix64
        self.0 = self.0.wrapping_add(0x9E3779B97F4A7C15);
        let mut z = self.0;
        z = (z ^ (z >> 30)).wrapping_mul(0xBF58476D1CE4E5B9);
        z = (z ^ (z >> 27)).wrapping_mul(0x94D049BB133111EB);
        z ^ (z >> 31)
    }
    fn below(&mut self, n: usize) -> usize {
        (self.next() % (n as u64)) as usize
    }
    fn bytes(&mut self, n: usize) -> Vec<u8> {
        (0..n).map(|_| self.next() as u8).collect()
    }
}

fn hx(b: &[u8]) -> String {
    hex::encode(b)
}

struct Algo {
    name: &'static str,
    lib: fn(&[u8]) -> Hash,
    lib_hmac: fn(&[u8], &[u8]) -> Hash,
    reference: HashFn,
    block: usize,
    out: usize,
}

fn algos() -> Vec<Algo> {
    vec![
        Algo { name: "sha1", lib: Hash::sha_1, lib_hmac: Hash::sha_1_hmac, reference: ref_sha1, block: 64, out: 20 },
        Algo { name: "sha256", lib: Hash::sha_256, lib_hmac: Hash::sha_256_hmac, reference: ref_sha256, block: 64, out: 32 },
        Algo { name: "sha256d", lib: Hash::sha_256d, lib_hmac: Hash::sha_256d_hmac, reference: ref_sha256d, block: 64, out: 32 },
        Algo { name: "sha512", lib: Hash::sha_512, lib_hmac: Hash::sha_512_hmac, reference: ref_sha512, block: 128, out: 64 },
        Algo { name: "ripemd160", lib: Hash::ripemd_160, lib_hmac: Hash::ripemd_160_hmac, reference: ref_rmd160, block: 64, out: 20 },
        Algo { name: "hash160", lib: Hash::hash_160, lib_hmac: Hash::hash_160_hmac, reference: ref_hash160, block: 64, out: 20 },
    ]
}

// ---------------------------------------------------------------------------------------------
// 0. The reference itself against published vectors (so that a disagreement can be attributed)
// ---------------------------------------------------------------------------------------------

const M448: &str = "abcdbcdecdefdefgefghfghighijhijkijkljklmklmnlmnomnopnopq";
const M896: &str = "abcdefghbcdefghicdefghijdefghijkefghijklfghijklmghijklmnhijklmnoijklmnopjklmnopqklmnopqrlmnopqrsmnopqrstnopqrstu";

fn published() -> Vec<(&'static str, Vec<u8>, &'static str)> {
    let mil = vec![b'a'; 1_000_000];
    vec![
        ("sha1", b"".to_vec(), "da39a3ee5e6b4b0d3255bfef95601890afd80709"),
        ("sha1", b"abc".to_vec(), "a9993e364706816aba3e25717850c26c9cd0d89d"),
        ("sha1", M448.as_bytes().to_vec(), "84983e441c3bd26ebaae4aa1f95129e5e54670f1"),
        ("sha1", M896.as_bytes().to_vec(), "a49b2446a02c645bf419f995b67091253a04a259"),
        ("sha1", mil.clone(), "34aa973cd4c4daa4f61eeb2bdbad27316534016f"),
        ("sha256", b"".to_vec(), "e3b0c44298fc1c149afbf4c8996fb92427ae41e4649b934ca495991b7852b855"),
        ("sha256", b"abc".to_vec(), "ba7816bf8f01cfea414140de5dae2223b00361a396177a9cb410ff61f20015ad"),
        ("sha256", M448.as_bytes().to_vec(), "248d6a61d20638b8e5c026930c3e6039a33ce45964ff2167f6ecedd419db06c1"),
        ("sha256", M896.as_bytes().to_vec(), "cf5b16a778af8380036ce59e7b0492370b249b11e8f07a51afac45037afee9d1"),
        ("sha256", mil.clone(), "cdc76e5c9914fb9281a1c7e284d73e67f1809a48a497200e046d39ccc7112cd0"),
        (
            "sha512",
            b"".to_vec(),
            "cf83e1357eefb8bdf1542850d66d8007d620e4050b5715dc83f4a921d36ce9ce47d0d13c5d85f2b0ff8318d2877eec2f63b931bd47417a81a538327af927da3e",
        ),
        (
            "sha512",
            b"abc".to_vec(),
            "ddaf35a193617abacc417349ae20413112e6fa4e89a97ea20a9eeee64b55d39a2192992a274fc1a836ba3c23a3feebbd454d4423643ce80e2a9ac94fa54ca49f",
        ),
        (
            "sha512",
            M448.as_bytes().to_vec(),
            "204a8fc6dda82f0a0ced7beb8e08a41657c16ef468b228a8279be331a703c33596fd15c13b1b07f9aa1d3bea57789ca031ad85c7a71dd70354ec631238ca3445",
        ),
        (
            "sha512",
            M896.as_bytes().to_vec(),
            "8e959b75dae313da8cf4f72814fc143f8f7779c6eb9f7fa17299aeadb6889018501d289e4900f7e4331b99dec4b5433ac7d329eeb6dd26545e96e55b874be909",
        ),
        (
            "sha512",
            mil.clone(),
            "e718483d0ce769644e2e42c7bc15b4638e1f98b13b2044285632a803afa973ebde0ff244877ea60a4cb0432ce577c31beb009c5c2c49aa2e4eadb217ad8cc09b",
        ),
        ("ripemd160", b"".to_vec(), "9c1185a5c5e9fc54612808977ee8f548b2258d31"),
        ("ripemd160", b"a".to_vec(), "0bdc9d2d256b3ee9daae347be6f4dc835a467ffe"),
        ("ripemd160", b"abc".to_vec(), "8eb208f7e05d987a9b044a8e98c6b087f15a0bfc"),
        ("ripemd160", b"message digest".to_vec(), "5d0689ef49d2fae572b881b123a85ffa21595f36"),
        ("ripemd160", b"abcdefghijklmnopqrstuvwxyz".to_vec(), "f71c27109c692c1b56bbdceb5b9d2865b3708dbc"),
        ("ripemd160", M448.as_bytes().to_vec(), "12a053384a9c0c88e405a06c27dcf49ada62eb2b"),
        ("ripemd160", b"ABCDEFGHIJKLMNOPQRSTUVWXYZabcdefghijklmnopqrstuvwxyz0123456789".to_vec(), "b0e20b6e3116640286ed3a87a5713079b21f5189"),
        ("ripemd160", b"1234567890".repeat(8), "9b752e45573d4b39f4dbd3323cab82bf63326bfb"),
        ("ripemd160", mil, "52783243c1697bdbe16d37f97f68f08325dc1528"),
        // Bitcoin: sha256d("hello"), hash160("")
        ("sha256d", b"hello".to_vec(), "9595c9df90075148eb06860365df33584b75bff782a510c6cd4883a419833d50"),
        ("hash160", b"".to_vec(), "b472a266d0bd89c13706a4132ccfb16f7c3b9fcb"),
    ]
}

#[test]
fn ok_reference_matches_published_vectors() {
    let al = algos();
    for (name, msg, want) in published() {
        let a = al.iter().find(|a| a.name == name).unwrap();
        assert_eq!(hx(&(a.reference)(&msg)), want, "REFERENCE {} on len {}", name, msg.len());
    }
}

#[test]
fn ok_library_matches_published_vectors() {
    let al = algos();
    for (name, msg, want) in published() {
        let a = al.iter().find(|a| a.name == name).unwrap();
        let got = (a.lib)(&msg);
        assert_eq!(got.to_hex(), want, "{} on message of len {}", name, msg.len());
        assert_eq!(got.to_bytes(), hex::decode(want).unwrap());
    }
}

#[test]
fn ok_genesis_block_header_sha256d() {
    // Bitcoin genesis block header; block hash is the byte-reversed double SHA-256
    let header = hex::decode(
        "0100000000000000000000000000000000000000000000000000000000000000000000003ba3edfd7a7b12b27ac72c3e67768f617fc81bc3888a51323a9fb8aa4b1e5e4a29ab5f49ffff001d1dac2b7c",
    )
    .unwrap();
    let mut h = Hash::sha_256d(&header).to_bytes();
    h.reverse();
    assert_eq!(hx(&h), "000000000019d6689c085ae165831e934ff763ae46a2a6c172b3f1b60a8ce26f");
    // the same via the reversed-output mode of the adapter
    let mut d = Sha256d::default().reverse();
    Update::update(&mut d, &header);
    assert_eq!(hx(&d.finalize_fixed()), "000000000019d6689c085ae165831e934ff763ae46a2a6c172b3f1b60a8ce26f");
}

#[test]
fn ok_hash160_of_known_pubkey() {
    // compressed generator point -> address 1BgGZ9tcN4rm9KBzDn7KprQz87SZ26SAMH, hash160 751e76e8199196d454941c45d1b3a323f1433bd6
    let pk = hex::decode("0279be667ef9dcbbac55a06295ce870b07029bfcdb2dce28d959f2815b16f81798").unwrap();
    assert_eq!(Hash::hash_160(&pk).to_hex(), "751e76e8199196d454941c45d1b3a323f1433bd6");
}

// ---------------------------------------------------------------------------------------------
// 1. One-shot functions against the reference
// ---------------------------------------------------------------------------------------------

#[test]
fn ok_every_length_0_to_400_all_six_hashes() {
    let mut rng = Rng(1);
    for a in algos() {
        for len in 0..=400usize {
            for variant in 0..3 {
                let msg = match variant {
                    0 => vec![0u8; len],
                    1 => vec![0xffu8; len],
                    _ => rng.bytes(len),
                };
                let got = (a.lib)(&msg).to_bytes();
                let want = (a.reference)(&msg);
                assert_eq!(got.len(), a.out, "{} output length", a.name);
                assert_eq!(got, want, "{}({}) lib {} expected {}", a.name, hx(&msg), hx(&got), hx(&want));
            }
        }
    }
}

#[test]
fn ok_one_mib_and_odd_large_sizes() {
    let mut rng = Rng(2);
    for a in algos() {
        for len in [1usize << 20, (1 << 20) + 1, (1 << 20) - 9, 65535, 65536, 99_991] {
            let msg = rng.bytes(len);
            let got = (a.lib)(&msg).to_bytes();
            let want = (a.reference)(&msg);
            assert_eq!(got, want, "{} on random message of {} bytes: lib {} expected {}", a.name, len, hx(&got), hx(&want));
        }
    }
}

#[test]
fn ok_random_messages_thousands() {
    let mut rng = Rng(3);
    for a in algos() {
        for _ in 0..3000 {
            let len = rng.below(700);
            let msg = rng.bytes(len);
            let got = (a.lib)(&msg).to_bytes();
            let want = (a.reference)(&msg);
            assert_eq!(got, want, "{}({}) lib {} expected {}", a.name, hx(&msg), hx(&got), hx(&want));
        }
    }
}

#[test]
fn ok_single_bit_messages_and_sparse_patterns() {
    // messages that differ in exactly one bit, around the padding boundaries
    for a in algos() {
        for len in [1usize, 55, 56, 63, 64, 65, 111, 112, 119, 120, 127, 128, 129] {
            for bit in 0..len * 8 {
                let mut msg = vec![0u8; len];
                msg[bit / 8] |= 0x80 >> (bit % 8);
                let got = (a.lib)(&msg).to_bytes();
                let want = (a.reference)(&msg);
                assert_eq!(got, want, "{}({})", a.name, hx(&msg));
            }
        }
    }
}

#[test]
fn ok_message_over_2_pow_32_bits_sha256_sha1_rmd() {
    // 512 MiB + 3 bytes: the bit length needs more than 32 bits (outside the quantifier, kept as an extra)
    let len = (1usize << 29) + 3;
    let msg = vec![0x5au8; len];
    assert_eq!(Hash::sha_256(&msg).to_bytes(), ref_sha256(&msg), "sha256 of 2^29+3 bytes");
    assert_eq!(Hash::sha_1(&msg).to_bytes(), ref_sha1(&msg), "sha1 of 2^29+3 bytes");
    assert_eq!(Hash::ripemd_160(&msg).to_bytes(), ref_rmd160(&msg), "ripemd160 of 2^29+3 bytes");
}

// ---------------------------------------------------------------------------------------------
// 2. HMAC
// ---------------------------------------------------------------------------------------------

#[test]
fn ok_hmac_sha1_rfc2202() {
    let cases: Vec<(Vec<u8>, Vec<u8>, &str)> = vec![
        (vec![0x0b; 20], b"Hi There".to_vec(), "b617318655057264e28bc0b6fb378c8ef146be00"),
        (b"Jefe".to_vec(), b"what do ya want for nothing?".to_vec(), "effcdf6ae5eb2fa2d27416d5f184df9c259a7c79"),
        (vec![0xaa; 20], vec![0xdd; 50], "125d7342b9ac11cd91a39af48aa17b4f63f175d3"),
        ((1..=25u8).collect(), vec![0xcd; 50], "4c9007f4026250c6bc8414f9bf50c86c2d7235da"),
        (vec![0x0c; 20], b"Test With Truncation".to_vec(), "4c1a03424b55e07fe7f27be1d58bb9324a9a5a04"),
        (vec![0xaa; 80], b"Test Using Larger Than Block-Size Key - Hash Key First".to_vec(), "aa4ae5e15272d00e95705637ce8a3b55ed402112"),
        (
            vec![0xaa; 80],
            b"Test Using Larger Than Block-Size Key and Larger Than One Block-Size Data".to_vec(),
            "e8e99d0f45237d786d6bbaa7965c7808bbff1a91",
        ),
    ];
    for (key, data, want) in cases {
        assert_eq!(hx(&ref_hmac(ref_sha1, 64, &key, &data)), want, "REFERENCE");
        assert_eq!(Hash::sha_1_hmac(&data, &key).to_hex(), want, "hmac-sha1 key {} data {}", hx(&key), hx(&data));
    }
}

#[test]
fn ok_hmac_sha256_sha512_rfc4231() {
    let long = b"This is a test using a larger than block-size key and a larger than block-size data. The key needs to be hashed before being used by the HMAC algorithm.".to_vec();
    let cases: Vec<(Vec<u8>, Vec<u8>, &str, &str)> = vec![
        (
            vec![0x0b; 20],
            b"Hi There".to_vec(),
            "b0344c61d8db38535ca8afceaf0bf12b881dc200c9833da726e9376c2e32cff7",
            "87aa7cdea5ef619d4ff0b4241a1d6cb02379f4e2ce4ec2787ad0b30545e17cdedaa833b7d6b8a702038b274eaea3f4e4be9d914eeb61f1702e696c203a126854",
        ),
        (
            b"Jefe".to_vec(),
            b"what do ya want for nothing?".to_vec(),
            "5bdcc146bf60754e6a042426089575c75a003f089d2739839dec58b964ec3843",
            "164b7a7bfcf819e2e395fbe73b56e0a387bd64222e831fd610270cd7ea2505549758bf75c05a994a6d034f65f8f0e6fdcaeab1a34d4a6b4b636e070a38bce737",
        ),
        (
            vec![0xaa; 20],
            vec![0xdd; 50],
            "773ea91e36800e46854db8ebd09181a72959098b3ef8c122d9635514ced565fe",
            "fa73b0089d56a284efb0f0756c890be9b1b5dbdd8ee81a3655f83e33b2279d39bf3e848279a722c806b485a47e67c807b946a337bee8942674278859e13292fb",
        ),
        (
            (1..=25u8).collect(),
            vec![0xcd; 50],
            "82558a389a443c0ea4cc819899f2083a85f0faa3e578f8077a2e3ff46729665b",
            "b0ba465637458c6990e5a8c5f61d4af7e576d97ff94b872de76f8050361ee3dba91ca5c11aa25eb4d679275cc5788063a5f19741120c4f2de2adebeb10a298dd",
        ),
        (
            vec![0xaa; 131],
            b"Test Using Larger Than Block-Size Key - Hash Key First".to_vec(),
            "60e431591ee0b67f0d8a26aacbf5b77f8e0bc6213728c5140546040f0ee37f54",
            "80b24263c7c1a3ebb71493c1dd7be8b49b46d1f41b4aeec1121b013783f8f3526b56d037e05f2598bd0fd2215d6a1e5295e64f73f63f0aec8b915a985d786598",
        ),
        (
            vec![0xaa; 131],
            long,
            "9b09ffa71b942fcb27635fbcd5b0e944bfdc63644f0713938a7f51535c3a35e2",
            "e37b6a775dc87dbaa4dfa9f96e5e3ffddebd71f8867289865df5a32d20cdc944b6022cac3c4982b10d5eeb55c3e4de15134676fb6de0446065c97440fa8c6a58",
        ),
    ];
    for (key, data, w256, w512) in cases {
        assert_eq!(hx(&ref_hmac(ref_sha256, 64, &key, &data)), w256, "REFERENCE 256");
        assert_eq!(hx(&ref_hmac(ref_sha512, 128, &key, &data)), w512, "REFERENCE 512");
        assert_eq!(Hash::sha_256_hmac(&data, &key).to_hex(), w256, "hmac-sha256 key {} data {}", hx(&key), hx(&data));
        assert_eq!(Hash::sha_512_hmac(&data, &key).to_hex(), w512, "hmac-sha512 key {} data {}", hx(&key), hx(&data));
    }
}

#[test]
fn ok_hmac_ripemd160_rfc2286() {
    let cases: Vec<(Vec<u8>, Vec<u8>, &str)> = vec![
        (vec![0x0b; 20], b"Hi There".to_vec(), "24cb4bd67d20fc1a5d2ed7732dcc39377f0a5668"),
        (b"Jefe".to_vec(), b"what do ya want for nothing?".to_vec(), "dda6c0213a485a9e24f4742064a7f033b43c4069"),
        (vec![0xaa; 20], vec![0xdd; 50], "b0b105360de759960ab4f35298e116e295d8e7c1"),
        ((1..=25u8).collect(), vec![0xcd; 50], "d5ca862f4d21d5e610e18b4cf1beb97a4365ecf4"),
        (vec![0xaa; 80], b"Test Using Larger Than Block-Size Key - Hash Key First".to_vec(), "6466ca07ac5eac29e1bd523e5ada7605b791fd8b"),
        (
            vec![0xaa; 80],
            b"Test Using Larger Than Block-Size Key and Larger Than One Block-Size Data".to_vec(),
            "69ea60798d71616cce5fd0871e23754cd75d5a0a",
        ),
    ];
    for (key, data, want) in cases {
        assert_eq!(hx(&ref_hmac(ref_rmd160, 64, &key, &data)), want, "REFERENCE");
        assert_eq!(Hash::ripemd_160_hmac(&data, &key).to_hex(), want, "hmac-ripemd160 key {} data {}", hx(&key), hx(&data));
    }
}

#[test]
fn ok_hmac_key_length_sweep_all_six() {
    let mut rng = Rng(4);
    for a in algos() {
        let b = a.block;
        let mut key_lens: Vec<usize> = (0..=2 * b + 3).collect();
        key_lens.extend_from_slice(&[3 * b, 3 * b + 1, 5 * b - 1, 1000]);
        for &kl in &key_lens {
            let key = rng.bytes(kl);
            for ml in [0usize, 1, b - 9, b - 8, b - 1, b, b + 1, 2 * b - 9, 2 * b, 2 * b + 1, 300] {
                let msg = rng.bytes(ml);
                let got = (a.lib_hmac)(&msg, &key).to_bytes();
                let want = ref_hmac(a.reference, a.block, &key, &msg);
                assert_eq!(got, want, "hmac-{} key({} bytes) {} msg {}: lib {} expected {}", a.name, kl, hx(&key), hx(&msg), hx(&got), hx(&want));
            }
        }
    }
}

#[test]
fn ok_hmac_message_length_sweep_all_six() {
    let mut rng = Rng(5);
    for a in algos() {
        for kl in [0usize, 1, a.block - 1, a.block, a.block + 1, 2 * a.block] {
            let key = rng.bytes(kl);
            for ml in 0..=300usize {
                let msg = rng.bytes(ml);
                let got = (a.lib_hmac)(&msg, &key).to_bytes();
                let want = ref_hmac(a.reference, a.block, &key, &msg);
                assert_eq!(got, want, "hmac-{} key {} msg {}", a.name, hx(&key), hx(&msg));
            }
        }
    }
}

#[test]
fn ok_hmac_random_thousands() {
    let mut rng = Rng(6);
    for a in algos() {
        for _ in 0..2000 {
            let key = {
                let n = rng.below(3 * a.block);
                rng.bytes(n)
            };
            let msg = {
                let n = rng.below(400);
                rng.bytes(n)
            };
            let got = (a.lib_hmac)(&msg, &key).to_bytes();
            let want = ref_hmac(a.reference, a.block, &key, &msg);
            assert_eq!(got, want, "hmac-{} key {} msg {}", a.name, hx(&key), hx(&msg));
        }
    }
}

#[test]
fn ok_hmac_argument_order_is_input_then_key() {
    // distinct key and message: swapping them gives a different tag, the library must use (input, key)
    let key = b"Jefe";
    let msg = b"what do ya want for nothing?";
    for a in algos() {
        let got = (a.lib_hmac)(msg, key).to_bytes();
        assert_eq!(got, ref_hmac(a.reference, a.block, key, msg), "{}", a.name);
        assert_ne!(got, ref_hmac(a.reference, a.block, msg, key), "{}", a.name);
    }
}

#[test]
fn ok_hmac_key_with_trailing_zeros_and_zero_key() {
    // keys that differ only by trailing zero bytes (<= block) give the same tag by RFC 2104 zero padding;
    // a key of block+1 zero bytes does not
    for a in algos() {
        let msg = b"trailing zero keys";
        let base = (a.lib_hmac)(msg, b"k").to_bytes();
        let mut k = b"k".to_vec();
        k.resize(a.block, 0);
        assert_eq!((a.lib_hmac)(msg, &k).to_bytes(), base, "{}", a.name);
        k.push(0);
        let got = (a.lib_hmac)(msg, &k).to_bytes();
        assert_eq!(got, ref_hmac(a.reference, a.block, &k, msg), "{}", a.name);
        assert_ne!(got, base);
        assert_eq!((a.lib_hmac)(msg, &[]).to_bytes(), (a.lib_hmac)(msg, &vec![0u8; a.block]).to_bytes(), "{}", a.name);
    }
}

#[test]
fn ok_hmac_large_message() {
    let mut rng = Rng(7);
    let msg = rng.bytes(1 << 20);
    for a in algos() {
        let key = rng.bytes(a.block + 5);
        assert_eq!((a.lib_hmac)(&msg, &key).to_bytes(), ref_hmac(a.reference, a.block, &key, &msg), "{} 1MiB", a.name);
    }
}

#[test]
fn ok_bip32_test_vector_1_master_key_uses_hmac_sha512_key_bitcoin_seed() {
    let seed = hex::decode("000102030405060708090a0b0c0d0e0f").unwrap();
    let i = ref_hmac(ref_sha512, 128, b"Bitcoin seed", &seed);
    assert_eq!(Hash::sha_512_hmac(&seed, b"Bitcoin seed").to_bytes(), i);
    let x = ExtendedPrivateKey::from_seed(&seed).unwrap();
    assert_eq!(x.to_string().unwrap(), "xprv9s21ZrQH143K3QTDL4LXw2F7HEK3wJUD2nW2nRk4stbPy6cq3jPPqjiChkVvvNKmPGJxWUtg6LnF5kejMRNNU3TGtRBeJgk33yuGBxrMPHi");
    assert_eq!(x.get_chain_code(), i[32..].to_vec());
}

// ---------------------------------------------------------------------------------------------
// 3. PBKDF2
// ---------------------------------------------------------------------------------------------

fn lib_pbkdf2(pw: &[u8], salt: &[u8], h: PBKDF2Hashes, c: u32, n: usize) -> Vec<u8> {
    let k = KDF::pbkdf2(pw, Some(salt.to_vec()), h, c, n);
    assert_eq!(k.get_salt(), salt.to_vec(), "KDF keeps the salt");
    k.get_hash().to_bytes()
}

fn pb_algos() -> Vec<(&'static str, PBKDF2Hashes, HashFn, usize, usize)> {
    vec![
        ("sha1", PBKDF2Hashes::SHA1, ref_sha1 as HashFn, 64, 20),
        ("sha256", PBKDF2Hashes::SHA256, ref_sha256 as HashFn, 64, 32),
        ("sha512", PBKDF2Hashes::SHA512, ref_sha512 as HashFn, 128, 64),
    ]
}

#[test]
fn ok_pbkdf2_sha1_rfc6070() {
    let cases: Vec<(&[u8], &[u8], u32, usize, &str)> = vec![
        (b"password", b"salt", 1, 20, "0c60c80f961f0e71f3a9b524af6012062fe037a6"),
        (b"password", b"salt", 2, 20, "ea6c014dc72d6f8ccd1ed92ace1d41f0d8de8957"),
        (b"password", b"salt", 4096, 20, "4b007901b765489abead49d926f721d065a429c1"),
        (b"passwordPASSWORDpassword", b"saltSALTsaltSALTsaltSALTsaltSALTsalt", 4096, 25, "3d2eec4fe41c849b80c8d83662c0e44a8b291a964cf2f07038"),
        (b"pass\0word", b"sa\0lt", 4096, 16, "56fa6aa75548099dcc37d7f03425e0c3"),
    ];
    for (p, s, c, n, want) in cases {
        assert_eq!(hx(&ref_pbkdf2(ref_sha1, 64, p, s, c, n)), want, "REFERENCE");
        assert_eq!(hx(&lib_pbkdf2(p, s, PBKDF2Hashes::SHA1, c, n)), want, "pbkdf2-sha1 P={:?} S={:?} c={} dkLen={}", p, s, c, n);
    }
}

#[test]
fn ok_pbkdf2_sha1_rfc6070_16777216_rounds() {
    let got = lib_pbkdf2(b"password", b"salt", PBKDF2Hashes::SHA1, 16777216, 20);
    assert_eq!(hx(&got), "eefe3d61cd4da4e4e9945b3d6ba2158c2634e984");
}

#[test]
fn ok_pbkdf2_sha256_rfc7914() {
    let w1 = "55ac046e56e3089fec1691c22544b605f94185216dde0465e68b9d57c20dacbc49ca9cccf179b645991664b39d77ef317c71b845b1e30bd509112041d3a19783";
    assert_eq!(hx(&ref_pbkdf2(ref_sha256, 64, b"passwd", b"salt", 1, 64)), w1, "REFERENCE");
    assert_eq!(hx(&lib_pbkdf2(b"passwd", b"salt", PBKDF2Hashes::SHA256, 1, 64)), w1);
    let w2 = "4ddcd8f60b98be21830cee5ef22701f9641a4418d04c0414aeff08876b34ab56a1d425a1225833549adb841b51c9b3176a272bdebba1d078478f62b397f33c8d";
    assert_eq!(hx(&ref_pbkdf2(ref_sha256, 64, b"Password", b"NaCl", 80000, 64)), w2, "REFERENCE");
    assert_eq!(hx(&lib_pbkdf2(b"Password", b"NaCl", PBKDF2Hashes::SHA256, 80000, 64)), w2);
}

#[test]
fn ok_pbkdf2_grid_rounds_lengths_salts_passwords() {
    let mut rng = Rng(8);
    for (name, h, rf, block, hlen) in pb_algos() {
        for &c in &[1u32, 2, 3, 1000] {
            let out_lens: Vec<usize> = if c == 1000 { vec![1, hlen + 1, 3 * hlen + 7] } else { vec![0, 1, hlen - 1, hlen, hlen + 1, 2 * hlen, 3 * hlen + 7, 5 * hlen] };
            let pw_lens: Vec<usize> = if c == 1000 { vec![0, block + 1] } else { vec![0, 1, block - 1, block, block + 1, 2 * block + 3] };
            let salt_lens: Vec<usize> = if c == 1000 { vec![0, block + 9] } else { vec![0, 1, block - 5, block - 4, block - 3, block, block + 9, 3 * block] };
            for &n in &out_lens {
                for &pl in &pw_lens {
                    for &sl in &salt_lens {
                        let pw = rng.bytes(pl);
                        let salt = rng.bytes(sl);
                        let got = lib_pbkdf2(&pw, &salt, h, c, n);
                        let want = ref_pbkdf2(rf, block, &pw, &salt, c, n);
                        assert_eq!(got.len(), n);
                        assert_eq!(got, want, "pbkdf2-{} P={} S={} c={} dkLen={}: lib {} expected {}", name, hx(&pw), hx(&salt), c, n, hx(&got), hx(&want));
                    }
                }
            }
        }
    }
}

#[test]
fn ok_pbkdf2_every_output_length_0_to_4_blocks() {
    for (name, h, rf, block, hlen) in pb_algos() {
        let full = ref_pbkdf2(rf, block, b"pw", b"NaCl", 3, 4 * hlen + 1);
        for n in 0..=4 * hlen + 1 {
            let got = lib_pbkdf2(b"pw", b"NaCl", h, 3, n);
            assert_eq!(got, full[..n].to_vec(), "pbkdf2-{} dkLen={} is the prefix of the longer output", name, n);
        }
    }
}

#[test]
fn ok_pbkdf2_long_output_many_blocks() {
    // more than 255 blocks so that the block index needs its second byte
    for (name, h, rf, block, hlen) in pb_algos() {
        let n = 300 * hlen + 5;
        let got = lib_pbkdf2(b"password", b"salt", h, 1, n);
        let want = ref_pbkdf2(rf, block, b"password", b"salt", 1, n);
        assert_eq!(got, want, "pbkdf2-{} dkLen={}", name, n);
    }
}

#[test]
fn ok_pbkdf2_random_thousands() {
    let mut rng = Rng(9);
    for (name, h, rf, block, hlen) in pb_algos() {
        for _ in 0..1500 {
            let pw = {
                let n = rng.below(2 * block + 10);
                rng.bytes(n)
            };
            let salt = {
                let n = rng.below(2 * block + 10);
                rng.bytes(n)
            };
            let c = 1 + rng.below(6) as u32;
            let n = rng.below(3 * hlen + 9);
            let got = lib_pbkdf2(&pw, &salt, h, c, n);
            let want = ref_pbkdf2(rf, block, &pw, &salt, c, n);
            assert_eq!(got, want, "pbkdf2-{} P={} S={} c={} dkLen={}", name, hx(&pw), hx(&salt), c, n);
        }
    }
}

#[test]
fn ok_pbkdf2_existing_suite_values_agree_with_reference() {
    let want = ref_pbkdf2(ref_sha256, 64, b"stronk-password", b"snails", 10000, 32);
    assert_eq!(hx(&want), "ffb5bb1b78211b1d275f32c4ba426f0875e80640fbf313eac06ba6e79225b237");
    assert_eq!(lib_pbkdf2(b"stronk-password", b"snails", PBKDF2Hashes::SHA256, 10000, 32), want);
}

#[test]
fn ok_pbkdf2_random_salt_variant_is_pbkdf2_of_the_reported_salt() {
    for (name, h, rf, block, hlen) in pb_algos() {
        let k = KDF::pbkdf2(b"password", None, h, 7, hlen + 3);
        let salt = k.get_salt();
        assert!(!salt.is_empty());
        assert_eq!(k.get_hash().to_bytes(), ref_pbkdf2(rf, block, b"password", &salt, 7, hlen + 3), "{}", name);
        let k2 = KDF::pbkdf2(b"password", None, h, 7, hlen + 3);
        assert_ne!(k2.get_salt(), salt, "two random salts");
    }
}

#[test]
fn ok_pbkdf2_zero_rounds_borderline() {
    // RFC 8018 requires c >= 1; "every iteration count" cannot include 0. Recorded only: the library
    // returns the c = 1 value instead of failing.
    for (name, h, rf, block, hlen) in pb_algos() {
        let got = lib_pbkdf2(b"password", b"salt", h, 0, hlen);
        assert_eq!(got, ref_pbkdf2(rf, block, b"password", b"salt", 1, hlen), "{}", name);
    }
}

const ABANDON: &str = "abandon abandon abandon abandon abandon abandon abandon abandon abandon abandon abandon about";

#[test]
fn ok_from_mnemonic_without_passphrase_is_bip39_seed_then_bip32_master() {
    // BIP39 seed of the all-"abandon" mnemonic with the empty passphrase (salt = "mnemonic")
    let seed = ref_pbkdf2(ref_sha512, 128, ABANDON.as_bytes(), b"mnemonic", 2048, 64);
    assert_eq!(
        hx(&seed),
        "5eb00bbddcf069084889a8ab9155568165f5c453ccb85e70811aaed6f6da5fc19a5ac40b389cd370d086206dec8aa6c43daea6690f20ad3d8d48b2d2ce9e38e4",
        "REFERENCE"
    );
    assert_eq!(lib_pbkdf2(ABANDON.as_bytes(), b"mnemonic", PBKDF2Hashes::SHA512, 2048, 64), seed);
    let x = ExtendedPrivateKey::from_mnemonic(ABANDON.as_bytes(), None).unwrap();
    assert_eq!(x.to_string().unwrap(), "xprv9s21ZrQH143K3GJpoapnV8SFfukcVBSfeCficPSGfubmSFDxo1kuHnLisriDvSnRRuL2Qrg5ggqHKNVpxR86QEC8w35uxmGoggxtQTPvfUu");
    let i = ref_hmac(ref_sha512, 128, b"Bitcoin seed", &seed);
    assert_eq!(x.get_chain_code(), i[32..].to_vec());
    assert_eq!(x.get_private_key().to_bytes(), i[..32].to_vec());
}

#[test]
fn ok_from_mnemonic_random_mnemonics_and_salts_equal_reference_pbkdf2() {
    // whatever the second argument means, the key must be PBKDF2-HMAC-SHA512(mnemonic, salt, 2048, 64) fed to BIP32
    let mut rng = Rng(10);
    for i in 0..12 {
        let m = {
            let n = 1 + rng.below(200);
            rng.bytes(n)
        };
        let s = {
            let n = rng.below(200);
            rng.bytes(n)
        };
        let (arg, salt) = if i % 3 == 0 { (None, b"mnemonic".to_vec()) } else { (Some(s.clone()), s.clone()) };
        let seed = ref_pbkdf2(ref_sha512, 128, &m, &salt, 2048, 64);
        let master = ref_hmac(ref_sha512, 128, b"Bitcoin seed", &seed);
        match ExtendedPrivateKey::from_mnemonic(&m, arg) {
            Ok(x) => {
                assert_eq!(x.get_private_key().to_bytes(), master[..32].to_vec(), "mnemonic {} salt {}", hx(&m), hx(&salt));
                assert_eq!(x.get_chain_code(), master[32..].to_vec());
            }
            Err(e) => panic!("from_mnemonic failed for mnemonic {} salt {}: {:?}", hx(&m), hx(&salt), e),
        }
    }
}

#[test]
fn ok_from_mnemonic_passphrase_argument_is_the_whole_salt_borderline() {
    // BIP39: salt = "mnemonic" || passphrase. The library uses the second argument as the WHOLE salt, so the
    // Trezor vector (passphrase "TREZOR") is only reproduced when the caller passes "mnemonicTREZOR".
    // This is BIP39 conformance of from_mnemonic, not the PBKDF2 property; recorded as borderline.
    let trezor_seed = "c55257c360c07c72029aebc1b53c05ed0362ada38ead3e3e9efa3708e53495531f09a6987599d18264c1e1c92f2cf141630c7a3c4ab7c81b2f001698e7463b04";
    let seed = ref_pbkdf2(ref_sha512, 128, ABANDON.as_bytes(), b"mnemonicTREZOR", 2048, 64);
    assert_eq!(hx(&seed), trezor_seed, "REFERENCE");
    let want = ExtendedPrivateKey::from_seed(&seed).unwrap().to_string().unwrap();
    assert_eq!(want, "xprv9s21ZrQH143K3h3fDYiay8mocZ3afhfULfb5GX8kCBdno77K4HiA15Tg23wpbeF1pLfs1c5SPmYHrEpTuuRhxMwvKDwqdKiGJS9XFKzUsAF");
    let with_full_salt = ExtendedPrivateKey::from_mnemonic(ABANDON.as_bytes(), Some(b"mnemonicTREZOR".to_vec())).unwrap().to_string().unwrap();
    assert_eq!(with_full_salt, want);
    let with_passphrase_only = ExtendedPrivateKey::from_mnemonic(ABANDON.as_bytes(), Some(b"TREZOR".to_vec())).unwrap().to_string().unwrap();
    assert_ne!(with_passphrase_only, want, "if this starts to hold, the library prepends \"mnemonic\" itself");
}

// ---------------------------------------------------------------------------------------------
// 4. Streaming digest adapters
// ---------------------------------------------------------------------------------------------

fn rev(mut v: Vec<u8>) -> Vec<u8> {
    v.reverse();
    v
}

fn adapter_suite<D>(name: &str, reference: HashFn, out_len: usize)
where
    D: Digest + Update + FixedOutput + Reset + BlockInput + Default + Clone + ReversibleDigest,
{
    let mut rng = Rng(11);
    assert_eq!(<D as Digest>::output_size(), out_len, "{} output_size", name);
    assert_eq!(<D as BlockInput>::BlockSize::to_usize(), 64, "{} block size", name);

    // one-shot
    for len in 0..=200usize {
        let msg = rng.bytes(len);
        assert_eq!(D::digest(&msg).to_vec(), reference(&msg), "{}::digest({})", name, hx(&msg));
    }

    // every two-way split and every uniform chunk size, plain and reversed
    for len in [0usize, 1, 55, 56, 57, 63, 64, 65, 119, 120, 127, 128, 129, 200] {
        let msg = rng.bytes(len);
        let want = reference(&msg);
        for cut in 0..=len {
            let mut d = D::default();
            Update::update(&mut d, &msg[..cut]);
            Update::update(&mut d, &msg[cut..]);
            assert_eq!(d.clone().finalize_fixed().to_vec(), want, "{} split {}|{} of {}", name, cut, len - cut, hx(&msg));
            assert_eq!(d.reverse().finalize_fixed().to_vec(), rev(want.clone()), "{} reversed, split {}|{}", name, cut, len - cut);
        }
        for chunk in 1..=len.max(1) {
            let mut d = D::default().reverse();
            let mut w = D::default();
            for c in msg.chunks(chunk) {
                Update::update(&mut d, c);
                Digest::update(&mut w, c);
            }
            assert_eq!(d.finalize_fixed().to_vec(), rev(want.clone()), "{} reverse-first, chunks of {}", name, chunk);
            assert_eq!(w.finalize_fixed().to_vec(), want, "{} Digest::update chunks of {}", name, chunk);
        }
        // empty updates interleaved
        let mut d = D::default();
        Update::update(&mut d, b"");
        for b in &msg {
            Update::update(&mut d, [*b]);
            Update::update(&mut d, b"");
        }
        assert_eq!(Digest::finalize(d).to_vec(), want, "{} byte-wise with empty updates", name);
    }

    // random chunkings
    for _ in 0..2000 {
        let len = rng.below(600);
        let msg = rng.bytes(len);
        let want = reference(&msg);
        let reversed = rng.below(2) == 1;
        let mut d = if reversed { D::default().reverse() } else { D::default() };
        let mut pos = 0;
        while pos < len {
            let n = 1 + rng.below((len - pos).min(150));
            Update::update(&mut d, &msg[pos..pos + n]);
            pos += n;
        }
        let got = d.finalize_fixed().to_vec();
        assert_eq!(got, if reversed { rev(want) } else { want }, "{} random chunking of {} reversed={}", name, hx(&msg), reversed);
    }

    // chain / new / finalize / finalize_reset / reset
    let a = rng.bytes(70);
    let b = rng.bytes(130);
    let ab = [a.clone(), b.clone()].concat();
    assert_eq!(Digest::finalize(Digest::chain(Digest::chain(<D as Digest>::new(), &a), &b)).to_vec(), reference(&ab), "{} chain", name);

    let mut d = <D as Digest>::new();
    Digest::update(&mut d, &a);
    assert_eq!(Digest::finalize_reset(&mut d).to_vec(), reference(&a), "{} finalize_reset first", name);
    Digest::update(&mut d, &b);
    assert_eq!(Digest::finalize_reset(&mut d).to_vec(), reference(&b), "{} finalize_reset second (state must be fresh)", name);
    assert_eq!(Digest::finalize_reset(&mut d).to_vec(), reference(b""), "{} finalize_reset third (empty)", name);

    let mut d = D::default();
    Update::update(&mut d, &a);
    Reset::reset(&mut d);
    Update::update(&mut d, &b);
    assert_eq!(d.finalize_fixed().to_vec(), reference(&b), "{} reset mid-stream", name);

    // FixedOutput entry points
    let mut d = D::default();
    Update::update(&mut d, &ab);
    let mut out = digest::generic_array::GenericArray::<u8, <D as FixedOutput>::OutputSize>::default();
    d.clone().finalize_into(&mut out);
    assert_eq!(out.to_vec(), reference(&ab), "{} finalize_into", name);
    let mut out2 = digest::generic_array::GenericArray::<u8, <D as FixedOutput>::OutputSize>::default();
    d.finalize_into_reset(&mut out2);
    assert_eq!(out2.to_vec(), reference(&ab), "{} finalize_into_reset", name);
    assert_eq!(d.finalize_fixed_reset().to_vec(), reference(b""), "{} finalize_fixed_reset after reset", name);

    // clone mid-stream: both copies continue independently
    let mut d = D::default();
    Update::update(&mut d, &a);
    let mut e = d.clone();
    Update::update(&mut d, &b);
    Update::update(&mut e, &a);
    assert_eq!(d.finalize_fixed().to_vec(), reference(&ab), "{} clone: original", name);
    assert_eq!(e.finalize_fixed().to_vec(), reference(&[a.clone(), a.clone()].concat()), "{} clone: copy", name);

    // reversed mode: mid-stream, after reset, after finalize_reset, after clone; the source of reverse() stays plain
    let mut d = D::default();
    Update::update(&mut d, &a);
    let mut r = d.reverse();
    Update::update(&mut r, &b);
    Update::update(&mut d, &b);
    assert_eq!(d.clone().finalize_fixed().to_vec(), reference(&ab), "{} source of reverse() is unchanged", name);
    assert_eq!(r.clone().finalize_fixed().to_vec(), rev(reference(&ab)), "{} reverse() mid-stream", name);
    let r2 = r.clone();
    assert_eq!(r2.finalize_fixed().to_vec(), rev(reference(&ab)), "{} clone of reversed", name);
    assert_eq!(r.finalize_fixed_reset().to_vec(), rev(reference(&ab)), "{} reversed finalize_fixed_reset", name);
    Update::update(&mut r, &a);
    assert_eq!(r.finalize_fixed_reset().to_vec(), rev(reference(&a)), "{} reversed after finalize_reset", name);
    Update::update(&mut r, &a);
    Reset::reset(&mut r);
    Update::update(&mut r, &b);
    assert_eq!(r.clone().finalize_fixed().to_vec(), rev(reference(&b)), "{} reversed after reset", name);
    assert_eq!(Digest::finalize(r).to_vec(), rev(reference(&b)), "{} reversed via Digest::finalize", name);

    // palindrome check: reversed of reversed bytes equals plain
    let m = rng.bytes(99);
    let plain = D::digest(&m).to_vec();
    let mut rr = D::default().reverse();
    Update::update(&mut rr, &m);
    assert_eq!(rev(rr.finalize_fixed().to_vec()), plain);
}

#[test]
fn ok_adapter_sha256d() {
    adapter_suite::<Sha256d>("Sha256d", ref_sha256d, 32);
}

#[test]
fn ok_adapter_sha256r() {
    adapter_suite::<Sha256r>("Sha256r", ref_sha256, 32);
}

#[test]
fn ok_adapter_hash160() {
    adapter_suite::<Hash160>("Hash160", ref_hash160, 20);
}

#[test]
fn ok_hash160_new_true_is_reversed() {
    let mut rng = Rng(12);
    for len in [0usize, 1, 64, 200] {
        let m = rng.bytes(len);
        let mut d = Hash160::new(true);
        Update::update(&mut d, &m);
        assert_eq!(d.clone().finalize_fixed().to_vec(), rev(ref_hash160(&m)));
        // reset keeps the mode
        Reset::reset(&mut d);
        Update::update(&mut d, &m);
        assert_eq!(d.finalize_fixed_reset().to_vec(), rev(ref_hash160(&m)));
        let mut p = Hash160::new(false);
        Update::update(&mut p, &m);
        assert_eq!(p.finalize_fixed().to_vec(), ref_hash160(&m));
    }
}

#[test]
fn ok_all_chunkings_of_a_short_input_exhaustive() {
    // all 2^(n-1) compositions of a 12-byte input, and of a 66-byte input cut only near the block boundary
    fn run<D: Default + Update + FixedOutput + ReversibleDigest + Clone>(reference: HashFn) {
        let msg: Vec<u8> = (0..12u8).map(|i| i.wrapping_mul(37).wrapping_add(5)).collect();
        let want = reference(&msg);
        for mask in 0u32..(1 << 11) {
            let mut d = D::default();
            let mut start = 0;
            for i in 0..11 {
                if mask & (1 << i) != 0 {
                    d.update(&msg[start..=i]);
                    start = i + 1;
                }
            }
            d.update(&msg[start..]);
            assert_eq!(d.clone().finalize_fixed().to_vec(), want, "mask {:b}", mask);
            assert_eq!(d.reverse().finalize_fixed().to_vec(), rev(want.clone()), "mask {:b}", mask);
        }
        let msg: Vec<u8> = (0..140u8).collect();
        let want = reference(&msg);
        // cut points drawn from {55..=66, 119..=130}
        let cuts: Vec<usize> = (55..=66).chain(119..=130).collect();
        for mask in 0u32..(1 << 12) {
            // use the 12 low bits on the first group, then the same bits rotated on the second group
            let mut points: Vec<usize> = Vec::new();
            for (i, c) in cuts.iter().enumerate() {
                let bit = if i < 12 { mask >> i & 1 } else { mask.rotate_left(5) >> (i - 12) & 1 };
                if bit == 1 {
                    points.push(*c);
                }
            }
            let mut d = D::default();
            let mut start = 0;
            for p in points {
                d.update(&msg[start..p]);
                start = p;
            }
            d.update(&msg[start..]);
            assert_eq!(d.finalize_fixed().to_vec(), want, "mask {:b}", mask);
        }
    }
    run::<Sha256d>(ref_sha256d);
    run::<Sha256r>(ref_sha256);
    run::<Hash160>(ref_hash160);
}

#[test]
fn ok_get_hash_digest_both_algorithms_plain_and_reversed() {
    let mut rng = Rng(13);
    for len in (0..=200usize).chain([1000, 65536]) {
        let m = rng.bytes(len);
        let d = get_hash_digest(SigningHash::Sha256, &m);
        assert_eq!(d.clone().finalize_fixed().to_vec(), ref_sha256(&m), "Sha256 digest of {}", hx(&m));
        assert_eq!(d.reverse().finalize_fixed().to_vec(), rev(ref_sha256(&m)), "Sha256 reversed digest of {}", hx(&m));
        let d = get_hash_digest(SigningHash::Sha256d, &m);
        assert_eq!(d.clone().finalize_fixed().to_vec(), ref_sha256d(&m), "Sha256d digest of {}", hx(&m));
        assert_eq!(d.reverse().finalize_fixed().to_vec(), rev(ref_sha256d(&m)), "Sha256d reversed digest of {}", hx(&m));
    }
}

#[test]
fn ok_get_hash_digest_is_still_streamable() {
    // the returned digest has absorbed the preimage; absorbing more must behave like plain SHA-256 over the
    // concatenation (Sha256) / over sha256(preimage) || extra (Sha256d)
    let m = b"preimage".to_vec();
    let extra = b" and more".to_vec();
    let mut d = get_hash_digest(SigningHash::Sha256, &m);
    Update::update(&mut d, &extra);
    assert_eq!(d.finalize_fixed().to_vec(), ref_sha256(&[m.clone(), extra.clone()].concat()));
    let mut d = get_hash_digest(SigningHash::Sha256d, &m);
    Update::update(&mut d, &extra);
    assert_eq!(d.finalize_fixed().to_vec(), ref_sha256(&[ref_sha256(&m), extra].concat()));
}

#[test]
fn ok_reverse_twice_stays_reversed_borderline() {
    // reverse() sets the mode, it does not toggle it. The statement only says what the reversed mode outputs.
    let m = b"twice";
    let mut d = Sha256r::default().reverse().reverse();
    Update::update(&mut d, m);
    assert_eq!(d.finalize_fixed().to_vec(), rev(ref_sha256(m)));
    let mut d = Sha256d::default().reverse().reverse();
    Update::update(&mut d, m);
    assert_eq!(d.finalize_fixed().to_vec(), rev(ref_sha256d(m)));
    let mut d = Hash160::default().reverse().reverse();
    Update::update(&mut d, m);
    assert_eq!(d.finalize_fixed().to_vec(), rev(ref_hash160(m)));
}

#[test]
fn ok_hmac_over_the_adapters_directly_streaming() {
    use hmac::{Hmac, Mac, NewMac};
    let mut rng = Rng(14);
    for _ in 0..300 {
        let key = {
            let n = rng.below(200);
            rng.bytes(n)
        };
        let msg = {
            let n = rng.below(300);
            rng.bytes(n)
        };
        let cut = rng.below(msg.len() + 1);
        let mut m = Hmac::<Sha256d>::new_from_slice(&key).unwrap();
        m.update(&msg[..cut]);
        m.update(&msg[cut..]);
        assert_eq!(m.finalize().into_bytes().to_vec(), ref_hmac(ref_sha256d, 64, &key, &msg));
        let mut m = Hmac::<Hash160>::new_from_slice(&key).unwrap();
        m.update(&msg[..cut]);
        m.update(&msg[cut..]);
        assert_eq!(m.clone().finalize().into_bytes().to_vec(), ref_hmac(ref_hash160, 64, &key, &msg));
        // finalize_reset then reuse with the same key
        assert_eq!(m.finalize_reset().into_bytes().to_vec(), ref_hmac(ref_hash160, 64, &key, &msg));
        m.update(&msg[cut..]);
        assert_eq!(m.finalize().into_bytes().to_vec(), ref_hmac(ref_hash160, 64, &key, &msg[cut..]));
        let mut m = Hmac::<Sha256r>::new_from_slice(&key).unwrap();
        m.update(&msg);
        assert_eq!(m.finalize().into_bytes().to_vec(), ref_hmac(ref_sha256, 64, &key, &msg));
    }
}

// ---------------------------------------------------------------------------------------------
// 5. Hash helpers
// ---------------------------------------------------------------------------------------------

#[test]
fn ok_hash_to_bytes_to_hex_and_serde() {
    let mut rng = Rng(15);
    for a in algos() {
        for _ in 0..50 {
            let m = rng.bytes(40);
            let h = (a.lib)(&m);
            let want = (a.reference)(&m);
            assert_eq!(h.to_bytes(), want);
            assert_eq!(h.to_hex(), hx(&want), "lower-case hex, no prefix");
            assert_eq!(h.to_hex().len(), 2 * a.out);
            let json = serde_json::to_string(&h).unwrap();
            assert_eq!(json, format!("\"{}\"", hx(&want)));
            let back: Hash = serde_json::from_str(&json).unwrap();
            assert_eq!(back, h);
            let upper: Hash = serde_json::from_str(&json.to_uppercase()).unwrap();
            assert_eq!(upper.to_bytes(), want);
            assert_eq!(h.clone(), h);
        }
    }
    // digests with leading / trailing zero bytes keep their length in hex
    let z: Hash = serde_json::from_str("\"0000ab00\"").unwrap();
    assert_eq!(z.to_bytes(), vec![0, 0, 0xab, 0]);
    assert_eq!(z.to_hex(), "0000ab00");
    assert!(serde_json::from_str::<Hash>("\"abc\"").is_err(), "odd length hex");
    assert!(serde_json::from_str::<Hash>("\"zz\"").is_err());
    assert_eq!(Hash::default().to_bytes(), Vec::<u8>::new());
    assert_eq!(Hash::default().to_hex(), "");
}

#[test]
fn ok_kdf_serde_round_trip_keeps_hash_and_salt() {
    let k = KDF::pbkdf2(b"password", Some(b"salt".to_vec()), PBKDF2Hashes::SHA1, 1, 20);
    let json = serde_json::to_string(&k).unwrap();
    assert!(json.contains("0c60c80f961f0e71f3a9b524af6012062fe037a6"), "{}", json);
    assert!(json.contains(&hx(b"salt")), "{}", json);
    let back: KDF = serde_json::from_str(&json).unwrap();
    assert_eq!(back, k);
}

#[test]
fn ok_hash_of_digest_with_leading_zero_bytes_is_not_shortened() {
    // search a message whose SHA-256 / RIPEMD-160 begins or ends with a zero byte and check the full width
    for a in algos() {
        let mut found = 0;
        for i in 0u32..200_000 {
            let m = i.to_le_bytes();
            let want = (a.reference)(&m);
            if want[0] == 0 || want[want.len() - 1] == 0 {
                let got = (a.lib)(&m);
                assert_eq!(got.to_bytes(), want, "{}({})", a.name, hx(&m));
                assert_eq!(got.to_hex(), hx(&want));
                found += 1;
                if found == 8 {
                    break;
                }
            }
        }
        assert!(found > 0);
    }
}

#[test]
fn ok_concurrent_use_from_four_threads() {
    let handles: Vec<_> = (0..4u64)
        .map(|t| {
            std::thread::spawn(move || {
                let mut rng = Rng(100 + t);
                for _ in 0..500 {
                    let n = rng.below(300);
                    let m = rng.bytes(n);
                    assert_eq!(Hash::sha_256d(&m).to_bytes(), ref_sha256d(&m));
                    assert_eq!(Hash::hash_160(&m).to_bytes(), ref_hash160(&m));
                    assert_eq!(Hash::sha_512_hmac(&m, &m).to_bytes(), ref_hmac(ref_sha512, 128, &m, &m));
                }
            })
        })
        .collect();
    for h in handles {
        h.join().unwrap();
    }
}

// ---------------------------------------------------------------------------------------------
// 6. Extras
// ---------------------------------------------------------------------------------------------

#[test]
fn ok_unaligned_input_slices() {
    // the same bytes at every offset 0..32 of a larger buffer (unaligned loads in the SIMD / SHA-NI back ends)
    let mut rng = Rng(16);
    let buf = rng.bytes(600);
    for a in algos() {
        for off in 0..32usize {
            for len in [0usize, 1, 31, 64, 65, 128, 129, 257, 500] {
                let m = &buf[off..off + len];
                assert_eq!((a.lib)(m).to_bytes(), (a.reference)(m), "{} offset {} len {}", a.name, off, len);
                let k = &buf[off + 1..off + 1 + (len % 200)];
                assert_eq!((a.lib_hmac)(m, k).to_bytes(), ref_hmac(a.reference, a.block, k, m), "hmac-{} offset {} len {}", a.name, off, len);
            }
        }
    }
}

#[test]
fn ok_message_over_2_pow_32_bits_sha512_sha256d_hash160_and_adapters() {
    let len = (1usize << 29) + 64;
    let msg = vec![0xa5u8; len];
    assert_eq!(Hash::sha_512(&msg).to_bytes(), ref_sha512(&msg), "sha512 of 2^29+64 bytes");
    let inner = ref_sha256(&msg);
    assert_eq!(Hash::sha_256d(&msg).to_bytes(), ref_sha256(&inner), "sha256d of 2^29+64 bytes");
    assert_eq!(Hash::hash_160(&msg).to_bytes(), ref_rmd160(&inner), "hash160 of 2^29+64 bytes");
    // streamed in 1 MiB + 1 chunks through the adapters, reversed mode
    let mut d = Sha256d::default().reverse();
    let mut r = Sha256r::default().reverse();
    let mut h = Hash160::new(true);
    for c in msg.chunks((1 << 20) + 1) {
        Update::update(&mut d, c);
        Update::update(&mut r, c);
        Update::update(&mut h, c);
    }
    assert_eq!(d.finalize_fixed().to_vec(), rev(ref_sha256(&inner)));
    assert_eq!(r.finalize_fixed().to_vec(), rev(inner.clone()));
    assert_eq!(h.finalize_fixed().to_vec(), rev(ref_rmd160(&inner)));
}

#[test]
fn ok_dyn_digest_over_the_adapters() {
    use digest::DynDigest;
    let mut rng = Rng(17);
    let a = rng.bytes(77);
    let b = rng.bytes(131);
    let boxed: Vec<(Box<dyn DynDigest>, HashFn, bool, usize)> = vec![
        (Box::new(Sha256d::default()), ref_sha256d as HashFn, false, 32),
        (Box::new(Sha256d::default().reverse()), ref_sha256d as HashFn, true, 32),
        (Box::new(Sha256r::default()), ref_sha256 as HashFn, false, 32),
        (Box::new(Sha256r::default().reverse()), ref_sha256 as HashFn, true, 32),
        (Box::new(Hash160::default()), ref_hash160 as HashFn, false, 20),
        (Box::new(Hash160::new(true)), ref_hash160 as HashFn, true, 20),
    ];
    for (mut d, rf, reversed, n) in boxed {
        let fix = |v: Vec<u8>| if reversed { rev(v) } else { v };
        assert_eq!(d.output_size(), n);
        d.update(&a);
        let mut c = d.box_clone();
        c.update(&b);
        assert_eq!(c.finalize().to_vec(), fix(rf(&[a.clone(), b.clone()].concat())), "box_clone mid-stream");
        assert_eq!(d.finalize_reset().to_vec(), fix(rf(&a)), "dyn finalize_reset");
        d.update(&b);
        assert_eq!(d.finalize_reset().to_vec(), fix(rf(&b)), "dyn after reset");
        d.update(&a);
        d.reset();
        assert_eq!(d.finalize().to_vec(), fix(rf(b"")), "dyn reset then finalize");
    }
}

#[test]
fn ok_hash_cbor_round_trip() {
    let h = Hash::sha_256d(b"cbor");
    let mut buf = Vec::new();
    ciborium::ser::into_writer(&h, &mut buf).unwrap();
    let back: Hash = ciborium::de::from_reader(&buf[..]).unwrap();
    assert_eq!(back, h);
    assert_eq!(back.to_bytes(), ref_sha256d(b"cbor"));
}

#[test]
fn ok_hmac_sha512_bip32_child_derivation_vector_1_chain() {
    // BIP32 test vector 1, m/0' : I = HMAC-SHA512(key = chain code, data = 0x00 || k_par || ser32(i))
    let seed = hex::decode("000102030405060708090a0b0c0d0e0f").unwrap();
    let m = ExtendedPrivateKey::from_seed(&seed).unwrap();
    let mut data = vec![0u8];
    data.extend_from_slice(&m.get_private_key().to_bytes());
    data.extend_from_slice(&0x8000_0000u32.to_be_bytes());
    let i = ref_hmac(ref_sha512, 128, &m.get_chain_code(), &data);
    assert_eq!(Hash::sha_512_hmac(&data, &m.get_chain_code()).to_bytes(), i);
    let child = m.derive(0x8000_0000).unwrap();
    assert_eq!(child.get_chain_code(), i[32..].to_vec());
    assert_eq!(child.to_string().unwrap(), "xprv9uHRZZhk6KAJC1avXpDAp4MDc3sQKNxDiPvvkX8Br5ngLNv1TxvUxt4cV1rGL5hj6KCesnDYUhd7oWgT11eZG7XnxHrnYeSvkzY7d2bhkJ7");
}

#[test]
fn ok_repeated_calls_are_pure() {
    // no hidden state between calls
    let m = b"purity";
    for a in algos() {
        let first = (a.lib)(m);
        let _ = (a.lib)(b"something else entirely, longer than a block ........................................");
        let _ = (a.lib_hmac)(m, b"k");
        assert_eq!((a.lib)(m), first);
        let t = (a.lib_hmac)(m, b"k");
        let _ = (a.lib_hmac)(b"x", b"another key");
        assert_eq!((a.lib_hmac)(m, b"k"), t);
    }
}
