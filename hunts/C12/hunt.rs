// C12 hunt: Bitcoin Signed Message sign/verify completeness and soundness.
// Oracles: a tiny secp256k1 / ECDSA / RFC6979 / base58check reference written here with num-bigint, sha2, ripemd160, hmac.
#![allow(clippy::all)]
use bsv::*;
use hmac::{Hmac, Mac, NewMac};
use num_bigint::BigUint;
use ripemd160::Ripemd160;
use sha2::{Digest, Sha256};

// ---------------------------------------------------------------- reference implementation

fn big(h: &str) -> BigUint {
    BigUint::parse_bytes(h.as_bytes(), 16).unwrap()
}
fn p() -> BigUint {
    big("FFFFFFFFFFFFFFFFFFFFFFFFFFFFFFFFFFFFFFFFFFFFFFFFFFFFFFFEFFFFFC2F")
}
fn n() -> BigUint {
    big("FFFFFFFFFFFFFFFFFFFFFFFFFFFFFFFEBAAEDCE6AF48A03BBFD25E8CD0364141")
}
type Pt = Option<(BigUint, BigUint)>;
fn g() -> Pt {
    Some((
        big("79BE667EF9DCBBAC55A06295CE870B07029BFCDB2DCE28D959F2815B16F81798"),
        big("483ADA7726A3C4655DA4FBFC0E1108A8FD17B448A68554199C47D08FFB10D4B8"),
    ))
}
fn inv(a: &BigUint, m: &BigUint) -> BigUint {
    a.modpow(&(m - 2u32), m)
}
fn sub(a: &BigUint, b: &BigUint, m: &BigUint) -> BigUint {
    ((a % m) + m - (b % m)) % m
}
fn add(a: &Pt, b: &Pt) -> Pt {
    let p = p();
    match (a, b) {
        (None, _) => b.clone(),
        (_, None) => a.clone(),
        (Some((x1, y1)), Some((x2, y2))) => {
            let lam = if x1 == x2 {
                if (y1 + y2) % &p == BigUint::from(0u32) {
                    return None;
                }
                (BigUint::from(3u32) * x1 * x1 % &p) * inv(&(BigUint::from(2u32) * y1 % &p), &p) % &p
            } else {
                sub(y2, y1, &p) * inv(&sub(x2, x1, &p), &p) % &p
            };
            let x3 = sub(&sub(&(&lam * &lam % &p), x1, &p), x2, &p);
            let y3 = sub(&(&lam * sub(x1, &x3, &p) % &p), y1, &p);
            Some((x3, y3))
        }
    }
}
fn mul(k: &BigUint, pt: &Pt) -> Pt {
    let mut acc: Pt = None;
    let mut base = pt.clone();
    for i in 0..k.bits() {
        if k.bit(i) {
            acc = add(&acc, &base);
        }
        base = add(&base, &base);
    }
    acc
}
fn be32(v: &BigUint) -> [u8; 32] {
    let b = v.to_bytes_be();
    assert!(b.len() <= 32);
    let mut out = [0u8; 32];
    out[32 - b.len()..].copy_from_slice(&b);
    out
}
fn ref_pubkey_bytes(d: &BigUint, compressed: bool) -> Vec<u8> {
    let (x, y) = mul(d, &g()).unwrap();
    if compressed {
        let mut v = vec![if y.bit(0) { 3u8 } else { 2u8 }];
        v.extend_from_slice(&be32(&x));
        v
    } else {
        let mut v = vec![4u8];
        v.extend_from_slice(&be32(&x));
        v.extend_from_slice(&be32(&y));
        v
    }
}
fn sha256(b: &[u8]) -> Vec<u8> {
    Sha256::digest(b).to_vec()
}
fn ref_hash160(b: &[u8]) -> Vec<u8> {
    Ripemd160::digest(&sha256(b)).to_vec()
}
fn ref_address(prefix: u8, h160: &[u8]) -> String {
    let mut v = vec![prefix];
    v.extend_from_slice(h160);
    let c = sha256(&sha256(&v));
    v.extend_from_slice(&c[0..4]);
    bs58::encode(v).into_string()
}
fn ref_varint(l: u64) -> Vec<u8> {
    if l < 0xfd {
        vec![l as u8]
    } else if l <= 0xffff {
        let mut v = vec![0xfd];
        v.extend_from_slice(&(l as u16).to_le_bytes());
        v
    } else if l <= 0xffff_ffff {
        let mut v = vec![0xfe];
        v.extend_from_slice(&(l as u32).to_le_bytes());
        v
    } else {
        let mut v = vec![0xff];
        v.extend_from_slice(&l.to_le_bytes());
        v
    }
}
fn ref_magic(msg: &[u8]) -> Vec<u8> {
    let mut v = vec![0x18u8];
    v.extend_from_slice(b"Bitcoin Signed Message:\n");
    v.extend_from_slice(&ref_varint(msg.len() as u64));
    v.extend_from_slice(msg);
    v
}
fn ref_digest(msg: &[u8]) -> Vec<u8> {
    sha256(&sha256(&ref_magic(msg)))
}
/// plain ECDSA verification, any s
fn ref_verify(q: &Pt, z: &[u8], r: &BigUint, s: &BigUint) -> bool {
    let n = n();
    let zero = BigUint::from(0u32);
    if r == &zero || s == &zero || r >= &n || s >= &n {
        return false;
    }
    let z = BigUint::from_bytes_be(z) % &n;
    let si = inv(s, &n);
    let u1 = &z * &si % &n;
    let u2 = r * &si % &n;
    match add(&mul(&u1, &g()), &mul(&u2, q)) {
        None => false,
        Some((x, _)) => &(x % &n) == r,
    }
}
/// (r, low s, recovery id) of an ECDSA signature with the given nonce
fn ref_sign_with_k(d: &BigUint, k: &BigUint, z: &[u8]) -> (BigUint, BigUint, u8) {
    let n = n();
    let (rx, ry) = mul(k, &g()).unwrap();
    let r = &rx % &n;
    let z = BigUint::from_bytes_be(z) % &n;
    let mut s = inv(k, &n) * ((z + &r * d) % &n) % &n;
    let mut recid = (ry.bit(0) as u8) | (((rx >= n) as u8) << 1);
    if s > (&n >> 1) {
        s = &n - s;
        recid ^= 1;
    }
    (r, s, recid)
}
fn ref_compact(compressed: bool, recid: u8, r: &BigUint, s: &BigUint) -> Vec<u8> {
    let mut v = vec![27 + recid + if compressed { 4 } else { 0 }];
    v.extend_from_slice(&be32(r));
    v.extend_from_slice(&be32(s));
    v
}
/// RFC 6979 nonce with HMAC-SHA256, x = private key, h1 = digest
fn ref_rfc6979(d: &BigUint, z: &[u8]) -> BigUint {
    let n = n();
    let x = be32(d);
    let h1 = be32(&(BigUint::from_bytes_be(z) % &n));
    let hm = |key: &[u8], parts: &[&[u8]]| -> Vec<u8> {
        let mut m = Hmac::<Sha256>::new_from_slice(key).unwrap();
        for p in parts {
            m.update(p);
        }
        m.finalize().into_bytes().to_vec()
    };
    let mut v = vec![1u8; 32];
    let mut k = vec![0u8; 32];
    k = hm(&k, &[&v, &[0u8], &x, &h1]);
    v = hm(&k, &[&v]);
    k = hm(&k, &[&v, &[1u8], &x, &h1]);
    v = hm(&k, &[&v]);
    loop {
        v = hm(&k, &[&v]);
        let cand = BigUint::from_bytes_be(&v);
        if cand >= BigUint::from(1u32) && cand < n {
            return cand;
        }
        k = hm(&k, &[&v, &[0u8]]);
        v = hm(&k, &[&v]);
    }
}
fn b64(s: &str) -> Vec<u8> {
    let tbl = b"ABCDEFGHIJKLMNOPQRSTUVWXYZabcdefghijklmnopqrstuvwxyz0123456789+/";
    let mut bits = 0u32;
    let mut nb = 0;
    let mut out = vec![];
    for c in s.bytes() {
        if c == b'=' {
            break;
        }
        let v = tbl.iter().position(|t| *t == c).unwrap() as u32;
        bits = (bits << 6) | v;
        nb += 6;
        if nb >= 8 {
            nb -= 8;
            out.push((bits >> nb) as u8);
            bits &= (1 << nb) - 1;
        }
    }
    out
}

// deterministic pseudo random bytes
struct Rng(u64);
impl Rng {
    fn next(&mut self) -> u64 {
        self.0 ^= self.0 << 13;
        self.0 ^= self.0 >> 7;
        self.0 ^= self.0 << 17;
        self.0
    }
    fn bytes(&mut self, l: usize) -> Vec<u8> {
        (0..l).map(|_| (self.next() >> 24) as u8).collect()
    }
    fn rbytes(&mut self, m: u64) -> Vec<u8> {
        let l = (self.next() % m) as usize;
        self.bytes(l)
    }
    fn key(&mut self) -> BigUint {
        (BigUint::from_bytes_be(&self.bytes(32)) % (n() - 1u32)) + 1u32
    }
}

fn lib_key(d: &BigUint, compressed: bool) -> PrivateKey {
    PrivateKey::from_bytes(&be32(d)).unwrap().compress_public_key(compressed)
}
fn lib_addr(k: &PrivateKey) -> P2PKHAddress {
    k.to_public_key().unwrap().to_p2pkh_address().unwrap()
}
fn all_verify(msg: &[u8], sig: &Signature, addr: &P2PKHAddress) -> bool {
    let a = BSM::verify_message(msg, sig, addr).unwrap_or(false);
    let b = BSM::is_valid_message(msg, sig, addr);
    let c = addr.verify_bitcoin_message(msg, sig).unwrap_or(false);
    let d = addr.is_valid_bitcoin_message(msg, sig);
    assert!(a == b && b == c && c == d, "the four verification entry points disagree: {} {} {} {}", a, b, c, d);
    a
}
fn special_keys() -> Vec<BigUint> {
    let n = n();
    vec![
        BigUint::from(1u32),
        BigUint::from(2u32),
        BigUint::from(3u32),
        &n - 1u32,
        &n - 2u32,
        (&n + 1u32) >> 1,
        (&n - 1u32) >> 1,
        big("00000000000000000000000000000000000000000000000000000000000000ff"),
        big("0000000000000000000000000000000100000000000000000000000000000000"),
        big("8000000000000000000000000000000000000000000000000000000000000000"),
        big("FFFFFFFFFFFFFFFFFFFFFFFFFFFFFFFE00000000000000000000000000000000"),
    ]
}

// ---------------------------------------------------------------- experiments

#[test]
fn e00_reference_self_check() {
    // the reference itself: n*G = infinity, 2G known, (1/2)G has the famous short abscissa
    assert_eq!(mul(&n(), &g()), None);
    assert_eq!(mul(&BigUint::from(2u32), &g()).unwrap().0, big("C6047F9441ED7D6D3045406E95C07CD85C778E4B8CEF3CA7ABAC09B95C709EE5"));
    let half = (n() + 1u32) >> 1;
    assert_eq!(mul(&half, &g()).unwrap().0, big("3B78CE563F89A0ED9414F5AA28AD0D96D6795F9C63"));
    // well known addresses of the private key 1
    let c = ref_pubkey_bytes(&BigUint::from(1u32), true);
    let u = ref_pubkey_bytes(&BigUint::from(1u32), false);
    assert_eq!(ref_address(0, &ref_hash160(&c)), "1BgGZ9tcN4rm9KBzDn7KprQz87SZ26SAMH");
    assert_eq!(ref_address(0, &ref_hash160(&u)), "1EHNa6Q4Jz2uvNExL497mE43ikXhwF6kZm");
    assert_eq!(ref_address(0x6f, &ref_hash160(&c)), "mrCDrCybB6J1vRfbwM5hemdJz73FwDBC8r");
    assert_eq!(b64("TWFu"), b"Man");
}

#[test]
fn e01_roundtrip_matrix_keys_forms_lengths_prefixes() {
    let lens = [0usize, 1, 23, 24, 25, 75, 76, 252, 253, 254, 255, 256, 257, 0xffff - 1, 0xffff, 0x10000, 0x10001, 70000];
    let prefixes = [0x00u8, 0x6f, 0x05, 0xc4, 0x01, 0x7f, 0x80, 0xff];
    let mut rng = Rng(0x1234_5678_9abc_def1);
    let mut keys = special_keys();
    for _ in 0..6 {
        keys.push(rng.key());
    }
    for d in &keys {
        for compressed in [true, false] {
            let key = lib_key(d, compressed);
            let pk_ref = ref_pubkey_bytes(d, compressed);
            assert_eq!(key.to_public_key().unwrap().to_bytes().unwrap(), pk_ref, "public key bytes");
            let h160 = ref_hash160(&pk_ref);
            for l in lens {
                let msg = rng.bytes(l);
                let sig = BSM::sign_message(&key, &msg).unwrap();
                let compact = sig.to_compact_bytes(None);
                assert_eq!(compact.len(), 65);
                let back = Signature::from_compact_bytes(&compact).unwrap();
                assert_eq!(back.to_compact_bytes(None), compact);
                assert_eq!(back, sig, "round tripped signature object differs");
                for pre in prefixes {
                    // address built from the independently computed address text
                    let addr = P2PKHAddress::from_string(&ref_address(pre, &h160)).unwrap();
                    assert!(all_verify(&msg, &sig, &addr), "direct d={:x} c={} len={} prefix={}", d, compressed, l, pre);
                    assert!(all_verify(&msg, &back, &addr), "compact d={:x} c={} len={} prefix={}", d, compressed, l, pre);
                }
            }
        }
    }
}

#[test]
fn e02_signed_digest_is_reference_digest() {
    // the (r,s) of the library signature must verify, under the reference ECDSA, against the reference digest and reference public key
    let mut rng = Rng(77);
    let lens = [0usize, 1, 252, 253, 254, 0xffff, 0x10000, 0x10001, 100_000];
    for (i, l) in lens.iter().enumerate() {
        let d = rng.key();
        let compressed = i % 2 == 0;
        let key = lib_key(&d, compressed);
        let msg = rng.bytes(*l);
        let sig = BSM::sign_message(&key, &msg).unwrap();
        let z = ref_digest(&msg);
        let q = mul(&d, &g());
        let (r, s) = (BigUint::from_bytes_be(&sig.r()), BigUint::from_bytes_be(&sig.s()));
        assert!(ref_verify(&q, &z, &r, &s), "len {}: signature is not over the reference digest", l);
        // library, digest entry points with the reference digest
        let pk = PublicKey::from_bytes(&ref_pubkey_bytes(&d, compressed)).unwrap();
        assert!(ECDSA::verify_hashbuf(&z, &pk, &sig).unwrap());
        assert_eq!(sig.recover_public_key_from_digest(&z).unwrap().to_bytes().unwrap(), ref_pubkey_bytes(&d, compressed));
        // wrong length prefix forms are not what was signed
        let mut naive = vec![0x18u8];
        naive.extend_from_slice(b"Bitcoin Signed Message:\n");
        naive.push(*l as u8);
        naive.extend_from_slice(&msg);
        if *l >= 253 {
            assert!(!ref_verify(&q, &sha256(&sha256(&naive)), &r, &s));
        }
    }
}

#[test]
fn e03_sign_with_k_matches_reference_bytes() {
    let n = n();
    let ks = vec![
        BigUint::from(1u32),
        BigUint::from(2u32),
        BigUint::from(3u32),
        (&n + 1u32) >> 1, // r has 11 leading zero bytes
        &n - 1u32,
        &n - 2u32,
        big("1234567890abcdef1234567890abcdef1234567890abcdef1234567890abcdef"),
    ];
    let mut rng = Rng(4242);
    let mut ds = special_keys();
    ds.push(rng.key());
    ds.push(rng.key());
    for d in &ds {
        for k in &ks {
            for compressed in [true, false] {
                let msg = rng.rbytes(300);
                let z = ref_digest(&msg);
                let key = lib_key(d, compressed);
                let eph = lib_key(k, true);
                let got = BSM::sign_message_with_k(&key, &eph, &msg);
                let (r, s, recid) = ref_sign_with_k(d, k, &z);
                if s == BigUint::from(0u32) {
                    assert!(got.is_err());
                    continue;
                }
                let sig = got.unwrap();
                let expect = ref_compact(compressed, recid, &r, &s);
                assert_eq!(hex::encode(sig.to_compact_bytes(None)), hex::encode(&expect), "d={:x} k={:x} c={}", d, k, compressed);
                let addr = P2PKHAddress::from_string(&ref_address(0, &ref_hash160(&ref_pubkey_bytes(d, compressed)))).unwrap();
                assert!(all_verify(&msg, &sig, &addr));
                assert!(all_verify(&msg, &Signature::from_compact_bytes(&expect).unwrap(), &addr));
            }
        }
    }
}

#[test]
fn e04_deterministic_signature_is_rfc6979_reference() {
    // not demanded by the property, but pins the whole 65 bytes to an independent computation
    let mut rng = Rng(999);
    let mut ds = special_keys();
    for _ in 0..10 {
        ds.push(rng.key());
    }
    let mut mismatches = 0;
    for d in &ds {
        for compressed in [true, false] {
            let msg = rng.rbytes(600);
            let z = ref_digest(&msg);
            let k = ref_rfc6979(d, &z);
            let (r, s, recid) = ref_sign_with_k(d, &k, &z);
            let expect = ref_compact(compressed, recid, &r, &s);
            let sig = BSM::sign_message(&lib_key(d, compressed), &msg).unwrap();
            if sig.to_compact_bytes(None) != expect {
                mismatches += 1;
            }
        }
    }
    assert_eq!(mismatches, 0, "deterministic signatures differ from RFC6979/HMAC-SHA256 reference");
}

#[test]
fn e05_address_text_oracle_and_chain_params() {
    let mut rng = Rng(31337);
    for i in 0..40 {
        let d = if i < 11 { special_keys()[i].clone() } else { rng.key() };
        for compressed in [true, false] {
            let key = lib_key(&d, compressed);
            let h160 = ref_hash160(&ref_pubkey_bytes(&d, compressed));
            let base = lib_addr(&key);
            assert_eq!(base.to_pubkey_hash(), h160);
            assert_eq!(base.to_string().unwrap(), ref_address(0, &h160));
            let msg = rng.bytes(40);
            let sig = BSM::sign_message(&key, &msg).unwrap();
            for pre in [0u8, 0x6f, 0x19, 0xff] {
                let cp = ChainParams::new(pre, 0, 0, 0, 0, 0);
                let a = base.set_chain_params(&cp).unwrap();
                assert_eq!(a.to_string().unwrap(), ref_address(pre, &h160));
                assert_eq!(a, P2PKHAddress::from_string(&ref_address(pre, &h160)).unwrap());
                assert!(all_verify(&msg, &sig, &a));
                // serde form
                let js = serde_json::to_string(&a).unwrap();
                let a2: P2PKHAddress = serde_json::from_str(&js).unwrap();
                assert_eq!(a2, a);
                assert!(all_verify(&msg, &sig, &a2));
            }
            let t = base.set_chain_params(&ChainParams::testnet()).unwrap();
            assert_eq!(t.to_string().unwrap(), ref_address(0x6f, &h160));
            assert!(all_verify(&msg, &sig, &t.set_chain_params(&ChainParams::mainnet()).unwrap()));
        }
    }
}

#[test]
fn e06_external_vectors() {
    // Bitcoin Core util_tests message_verify
    let cases = [
        ("15CRxFdyRpGZLW9w8HnHvVduizdL5jKNbs", "IPojfrX2dfPnH26UegfbGQQLrdK844DlHq5157/P6h57WyuS/Qsl+h/WSVGDF4MUi4rWSswW38oimDYfNNUBUOk=", "Trust no one"),
        // bitcoinjs-message README
        ("1HZwkjkeaoZfTSaJxDw6aKkxp45agDiEzN", "G9L5yLFjti0QTHhPyFrZCT1V/MMnBtXKmoiKDZ78NDBjERki6ZTQZdSMCtkgoNmp17By9ItJr8o7ChX0XxY91nk=", "This is an example of a signed message."),
    ];
    for (addr, sig64, msg) in cases {
        let raw = b64(sig64);
        println!("vector {} sig len {}", addr, raw.len());
        if raw.len() != 65 {
            println!("  (vector not remembered correctly, skipped)");
            continue;
        }
        let sig = Signature::from_compact_bytes(&raw).unwrap();
        let a = P2PKHAddress::from_string(addr).unwrap();
        let ok = all_verify(msg.as_bytes(), &sig, &a);
        // reference: recover by brute force over the 4 ids is not needed; verify using reference ECDSA against the recovered key
        let rec = sig.recover_public_key(&ref_magic(msg.as_bytes()), SigningHash::Sha256d).map(|p| p.to_hex().unwrap());
        println!("  library verdict {} recovered {:?} high_s {}", ok, rec, BigUint::from_bytes_be(&sig.s()) > (n() >> 1));
        assert!(ok, "external vector rejected");
        assert!(!all_verify(b"I never signed this", &sig, &a));
    }
    // Bitcoin Core message_sign: the key of 15CRxFdyRpGZLW9w8HnHvVduizdL5jKNbs signs "Trust no one" to exactly this signature
    let key = PrivateKey::from_hex("D97F5108F11CDA6EEEBAAA420FEF0726B1F898060B98489FA3098463C0032866").unwrap();
    assert_eq!(lib_addr(&key).to_string().unwrap(), "15CRxFdyRpGZLW9w8HnHvVduizdL5jKNbs");
    assert_eq!(BSM::sign_message(&key, b"Trust no one").unwrap().to_compact_bytes(None), b64(cases[0].1));
}

#[test]
fn e07_single_bit_message_corruptions() {
    let mut rng = Rng(5150);
    for (l, step) in [(1usize, 1usize), (31, 1), (252, 1), (253, 1), (254, 1), (65536, 997), (65537, 1009)] {
        for compressed in [true, false] {
            let d = rng.key();
            let key = lib_key(&d, compressed);
            let addr = lib_addr(&key);
            let msg = rng.bytes(l);
            let sig = Signature::from_compact_bytes(&BSM::sign_message(&key, &msg).unwrap().to_compact_bytes(None)).unwrap();
            assert!(all_verify(&msg, &sig, &addr));
            let mut bit = 0;
            while bit < l * 8 {
                let mut m = msg.clone();
                m[bit / 8] ^= 1 << (bit % 8);
                assert!(!all_verify(&m, &sig, &addr), "len {} bit {} still verifies", l, bit);
                bit += step;
            }
            // length changes
            let mut longer = msg.clone();
            longer.push(0);
            assert!(!all_verify(&longer, &sig, &addr));
            assert!(!all_verify(&msg[..l - 1], &sig, &addr));
            let mut pre = ref_varint(l as u64);
            pre.extend_from_slice(&msg);
            assert!(!all_verify(&pre, &sig, &addr));
            assert!(!all_verify(&ref_magic(&msg), &sig, &addr));
        }
    }
    // the empty message against a zero byte and against the magic text
    let key = lib_key(&BigUint::from(5u32), true);
    let sig = BSM::sign_message(&key, b"").unwrap();
    assert!(all_verify(b"", &sig, &lib_addr(&key)));
    assert!(!all_verify(&[0u8], &sig, &lib_addr(&key)));
    assert!(!all_verify(b"Bitcoin Signed Message:\n", &sig, &lib_addr(&key)));
}

#[test]
fn e08_single_bit_signature_corruptions() {
    let mut rng = Rng(8080);
    let mut ds = special_keys();
    for _ in 0..12 {
        ds.push(rng.key());
    }
    let mut parse_err = 0;
    let mut total = 0;
    for d in &ds {
        for compressed in [true, false] {
            let key = lib_key(d, compressed);
            let addr = lib_addr(&key);
            let msg = rng.rbytes(400);
            let compact = BSM::sign_message(&key, &msg).unwrap().to_compact_bytes(None);
            for bit in 0..65 * 8 {
                let mut c = compact.clone();
                c[bit / 8] ^= 1 << (bit % 8);
                total += 1;
                match Signature::from_compact_bytes(&c) {
                    Err(_) => parse_err += 1,
                    Ok(sig) => {
                        assert!(!all_verify(&msg, &sig, &addr), "d={:x} c={} bit {} still verifies", d, compressed, bit);
                        // the other compression form of the same key neither
                        assert!(!all_verify(&msg, &sig, &lib_addr(&lib_key(d, !compressed))) || bit == 2, "bit {}", bit);
                    }
                }
            }
            // truncation and extension
            assert!(Signature::from_compact_bytes(&compact[..64]).is_err());
            let mut long = compact.clone();
            long.push(0);
            assert!(Signature::from_compact_bytes(&long).is_err());
        }
    }
    println!("bit flips: {} total, {} rejected at parse", total, parse_err);
}

#[test]
fn e09_other_keys_and_other_form_fail() {
    let mut rng = Rng(0xdead_beef);
    for _ in 0..60 {
        let d = rng.key();
        let compressed = rng.next() % 2 == 0;
        let key = lib_key(&d, compressed);
        let msg = rng.rbytes(100);
        let sig = BSM::sign_message(&key, &msg).unwrap();
        assert!(all_verify(&msg, &sig, &lib_addr(&key)));
        // same scalar, other form: a different address
        assert!(!all_verify(&msg, &sig, &lib_addr(&lib_key(&d, !compressed))));
        // neighbours and negation
        for other in [&d + 1u32, n() - &d, rng.key()] {
            if other == d || other == n() || other == BigUint::from(0u32) {
                continue;
            }
            for c in [true, false] {
                for pre in [0u8, 0x6f] {
                    let a = P2PKHAddress::from_string(&ref_address(pre, &ref_hash160(&ref_pubkey_bytes(&other, c)))).unwrap();
                    assert!(!all_verify(&msg, &sig, &a));
                }
            }
        }
        // an address that differs in one bit of the hash
        let mut h = lib_addr(&key).to_pubkey_hash();
        h[(rng.next() % 20) as usize] ^= 1 << (rng.next() % 8);
        assert!(!all_verify(&msg, &sig, &P2PKHAddress::from_pubkey_hash(&h).unwrap()));
    }
}

#[test]
fn e10_header_with_reduced_abscissa_bit_never_verifies() {
    let mut rng = Rng(1010);
    for _ in 0..50 {
        let d = rng.key();
        let key = lib_key(&d, true);
        let msg = rng.bytes(20);
        let mut c = BSM::sign_message(&key, &msg).unwrap().to_compact_bytes(None);
        assert!(c[0] == 31 || c[0] == 32);
        c[0] += 2;
        let sig = Signature::from_compact_bytes(&c).unwrap();
        assert!(!all_verify(&msg, &sig, &lib_addr(&key)));
    }
    // small r, reduced bit set: r + n is a valid field element sometimes; must be handled without panic
    for r in 1u32..40 {
        for hdr in 27u8..=34 {
            let mut c = vec![hdr];
            c.extend_from_slice(&be32(&BigUint::from(r)));
            c.extend_from_slice(&be32(&BigUint::from(7u32)));
            let sig = Signature::from_compact_bytes(&c).unwrap();
            let key = lib_key(&BigUint::from(9u32), true);
            assert!(!all_verify(b"x", &sig, &lib_addr(&key)));
            // when a key is recovered, the reference ECDSA must agree that it is the key of this signature
            if let Ok(pk) = sig.recover_public_key(&ref_magic(b"x"), SigningHash::Sha256d) {
                let b = pk.to_decompressed().unwrap().to_bytes().unwrap();
                let q = Some((BigUint::from_bytes_be(&b[1..33]), BigUint::from_bytes_be(&b[33..65])));
                assert!(ref_verify(&q, &ref_digest(b"x"), &BigUint::from(r), &BigUint::from(7u32)), "r={} hdr={}", r, hdr);
            }
        }
    }
}

#[test]
fn e11_der_route_with_explicit_recovery_info() {
    let mut rng = Rng(1111);
    for _ in 0..40 {
        let d = rng.key();
        let compressed = rng.next() % 2 == 0;
        let key = lib_key(&d, compressed);
        let msg = rng.bytes(33);
        let sig = BSM::sign_message(&key, &msg).unwrap();
        let compact = sig.to_compact_bytes(None);
        let rec = (compact[0] - 27) & 3;
        let der = Signature::from_der(&sig.to_der_bytes()).unwrap();
        // without recovery data verification cannot succeed
        assert!(!all_verify(&msg, &der, &lib_addr(&key)));
        let rebuilt = der.to_compact_bytes(Some(RecoveryInfo::from_byte(rec, compressed)));
        assert_eq!(rebuilt, compact);
        assert_eq!(der.to_compact_bytes(Some(RecoveryInfo::new(rec & 1 == 1, rec & 2 == 2, compressed))), compact);
        assert!(all_verify(&msg, &Signature::from_compact_bytes(&rebuilt).unwrap(), &lib_addr(&key)));
        // explicit info overrides stored info
        let other = sig.to_compact_bytes(Some(RecoveryInfo::from_byte(rec ^ 1, compressed)));
        assert_eq!(other[0], compact[0] - rec + (rec ^ 1), "header {} vs {}", other[0], compact[0]);
    }
}

#[test]
fn e12_key_construction_routes_agree() {
    let mut rng = Rng(1212);
    for _ in 0..30 {
        let d = rng.key();
        for compressed in [true, false] {
            let a = lib_key(&d, compressed);
            let b = PrivateKey::from_hex(&hex::encode(be32(&d))).unwrap().compress_public_key(compressed);
            // WIF by hand
            let mut w = vec![0x80u8];
            w.extend_from_slice(&be32(&d));
            if compressed {
                w.push(1);
            }
            let ck = sha256(&sha256(&w));
            w.extend_from_slice(&ck[0..4]);
            let wif = bs58::encode(w).into_string();
            let c = PrivateKey::from_wif(&wif).unwrap();
            assert_eq!(a.to_wif().unwrap(), wif);
            let e = c.clone();
            let f = PrivateKey::from_wif(&a.compress_public_key(!compressed).compress_public_key(compressed).to_wif().unwrap()).unwrap();
            let msg = rng.bytes(300);
            let z = ref_digest(&msg);
            let k = ref_rfc6979(&d, &z);
            let (r, s, recid) = ref_sign_with_k(&d, &k, &z);
            let expect = ref_compact(compressed, recid, &r, &s);
            let addr = P2PKHAddress::from_string(&ref_address(0x6f, &ref_hash160(&ref_pubkey_bytes(&d, compressed)))).unwrap();
            for key in [&a, &b, &c, &e, &f] {
                let sig = BSM::sign_message(key, &msg).unwrap();
                assert_eq!(sig.to_compact_bytes(None), expect);
                assert!(all_verify(&msg, &sig, &addr));
                assert_eq!(lib_addr(key).to_pubkey_hash(), addr.to_pubkey_hash());
                assert_eq!(PublicKey::from_private_key(key).to_p2pkh_address().unwrap().to_pubkey_hash(), addr.to_pubkey_hash());
            }
        }
    }
    // keys from an extended key
    let x = ExtendedPrivateKey::from_seed(&[7u8; 32]).unwrap().derive_from_path("m/44'/0'/0'/0/5").unwrap();
    let key = x.get_private_key();
    let sig = BSM::sign_message(&key, b"hd").unwrap();
    assert!(all_verify(b"hd", &sig, &x.get_public_key().to_p2pkh_address().unwrap()));
    assert!(all_verify(b"hd", &sig, &lib_addr(&key)));
    let d = BigUint::from_bytes_be(&key.to_bytes());
    assert_eq!(lib_addr(&key).to_string().unwrap(), ref_address(0, &ref_hash160(&ref_pubkey_bytes(&d, true))));
    // uncompressed use of the same hd key
    let ku = key.compress_public_key(false);
    let sigu = BSM::sign_message(&ku, b"hd").unwrap();
    assert!(all_verify(b"hd", &sigu, &P2PKHAddress::from_string(&ref_address(0, &ref_hash160(&ref_pubkey_bytes(&d, false)))).unwrap()));
    assert!(!all_verify(b"hd", &sigu, &lib_addr(&key)));
}

#[test]
fn e13_random_stress() {
    use rayon::prelude::*;
    (0..16u64).into_par_iter().for_each(|t| {
        let mut rng = Rng(0x9e37_79b9_7f4a_7c15 ^ (t + 1).wrapping_mul(0x1234_5677));
        for i in 0..400 {
            let d = rng.key();
            let compressed = rng.next() % 2 == 0;
            let key = lib_key(&d, compressed);
            let l = match rng.next() % 8 {
                0 => 0,
                1 => 252 + (rng.next() % 4) as usize,
                2 => 65534 + (rng.next() % 4) as usize,
                _ => (rng.next() % 200) as usize,
            };
            let msg = rng.bytes(l);
            let sig = BSM::sign_message(&key, &msg).unwrap();
            let c = sig.to_compact_bytes(None);
            let back = Signature::from_compact_bytes(&c).unwrap();
            let pre = (rng.next() & 0xff) as u8;
            let addr = lib_addr(&key).set_chain_params(&ChainParams::new(pre, 1, 2, 3, 4, 5)).unwrap();
            assert!(all_verify(&msg, &back, &addr), "t={} i={}", t, i);
            assert!(BigUint::from_bytes_be(&sig.s()) <= (n() >> 1));
            if i % 40 == 0 {
                let (r, s) = (BigUint::from_bytes_be(&c[1..33]), BigUint::from_bytes_be(&c[33..65]));
                assert!(ref_verify(&mul(&d, &g()), &ref_digest(&msg), &r, &s));
                assert_eq!(addr.to_string().unwrap(), ref_address(pre, &ref_hash160(&ref_pubkey_bytes(&d, compressed))));
            }
        }
    });
}

#[test]
fn e14_random_k_and_plain_ecdsa_signatures_over_magic_message() {
    // a signature made with ECDSA::sign_with_random_k / deterministic over the reference magic message and Sha256d is a BSM signature too
    let mut rng = Rng(1414);
    for _ in 0..40 {
        let d = rng.key();
        let compressed = rng.next() % 2 == 0;
        let key = lib_key(&d, compressed);
        let msg = rng.bytes(260);
        let m = ref_magic(&msg);
        let s1 = ECDSA::sign_with_deterministic_k(&key, &m, SigningHash::Sha256d, false).unwrap();
        assert_eq!(s1.to_compact_bytes(None), BSM::sign_message(&key, &msg).unwrap().to_compact_bytes(None));
        let s2 = ECDSA::sign_digest_with_deterministic_k(&key, &ref_digest(&msg)).unwrap();
        assert!(all_verify(&msg, &s2, &lib_addr(&key)));
        assert!(all_verify(&msg, &Signature::from_compact_bytes(&s2.to_compact_bytes(None)).unwrap(), &lib_addr(&key)));
        let s3 = ECDSA::sign_with_deterministic_k(&key, &m, SigningHash::Sha256d, true).unwrap();
        assert!(all_verify(&msg, &s3, &lib_addr(&key)));
    }
}

#[test]
fn e15_observation_high_s_form_of_a_valid_signature_is_rejected() {
    // (r, n-s) with flipped parity is the other ECDSA signature of the same key over the same digest; Bitcoin Core's
    // verifymessage (secp256k1_ecdsa_recover, no low-S rule) accepts it. The library recovers the right key and then rejects.
    // Outside the literal wording of C12 (which speaks of signatures made by this library), so recorded as an observation only.
    let d = big("1234567890abcdef1234567890abcdef1234567890abcdef1234567890abcdef");
    let key = lib_key(&d, true);
    let msg = b"high s";
    let c = BSM::sign_message(&key, msg).unwrap().to_compact_bytes(None);
    let s = BigUint::from_bytes_be(&c[33..65]);
    let mut hi = vec![((c[0] - 27) ^ 1) + 27];
    hi.extend_from_slice(&c[1..33]);
    hi.extend_from_slice(&be32(&(n() - &s)));
    let sig = Signature::from_compact_bytes(&hi).unwrap();
    // reference: it is a valid ECDSA signature of this key, and the library recovers exactly this key
    assert!(ref_verify(&mul(&d, &g()), &ref_digest(msg), &BigUint::from_bytes_be(&hi[1..33]), &(n() - &s)));
    assert_eq!(sig.recover_public_key(&ref_magic(msg), SigningHash::Sha256d).unwrap().to_bytes().unwrap(), ref_pubkey_bytes(&d, true));
    let verdict = all_verify(msg, &sig, &lib_addr(&key));
    println!("high-S twin accepted by library: {}", verdict);
    assert!(!verdict, "behaviour changed: high-S twin now accepted");
}

#[test]
fn e16_message_contents() {
    let key = lib_key(&big("abcdef"), false);
    let addr = lib_addr(&key);
    let msgs: Vec<Vec<u8>> = vec![
        b"Bitcoin Signed Message:\n".to_vec(),
        ref_magic(b"inner"),
        vec![0xff; 300],
        vec![0x00; 253],
        vec![0xfd, 0xfd, 0x00],
        "\u{1F600} unicode \u{00e9}\r\n".as_bytes().to_vec(),
    ];
    for m in &msgs {
        let sig = BSM::sign_message(&key, m).unwrap();
        let q = mul(&big("abcdef"), &g());
        assert!(ref_verify(&q, &ref_digest(m), &BigUint::from_bytes_be(&sig.r()), &BigUint::from_bytes_be(&sig.s())));
        assert!(all_verify(m, &Signature::from_compact_bytes(&sig.to_compact_bytes(None)).unwrap(), &addr));
        for o in &msgs {
            if o != m {
                assert!(!all_verify(o, &sig, &addr));
            }
        }
    }
}

#[test]
#[ignore]
fn e17_four_gib_boundary() {
    // message lengths 2^32 - 1 and 2^32: nine byte / five byte length prefixes
    for l in [0xffff_ffffusize, 0x1_0000_0000usize] {
        let msg = vec![0x61u8; l];
        let d = big("c0ffee");
        let key = lib_key(&d, true);
        let sig = BSM::sign_message(&key, &msg).unwrap();
        let mut h = Sha256::new();
        h.update(&[0x18u8]);
        h.update(b"Bitcoin Signed Message:\n");
        h.update(&ref_varint(l as u64));
        h.update(&msg);
        let z = sha256(&h.finalize());
        assert!(ref_verify(&mul(&d, &g()), &z, &BigUint::from_bytes_be(&sig.r()), &BigUint::from_bytes_be(&sig.s())), "len {}", l);
        assert!(BSM::verify_message(&msg, &Signature::from_compact_bytes(&sig.to_compact_bytes(None)).unwrap(), &lib_addr(&key)).unwrap());
    }
}

#[test]
fn e18_reduced_abscissa_signatures_are_complete() {
    // Valid signatures whose nonce point has abscissa r + n (recovery ids 2, 3). The signer's scalar is unknown, its public
    // key Q = r^-1 (sR - zG) is computed by the reference; (r, s) then is a valid signature of Q and must verify against Q's address.
    let (p, n) = (p(), n());
    let msg = b"reduced abscissa";
    let z = BigUint::from_bytes_be(&ref_digest(msg)) % &n;
    let mut found = 0;
    for rv in 1u32..60 {
        let r = BigUint::from(rv);
        let x = &r + &n;
        assert!(x < p);
        let y2 = (x.modpow(&BigUint::from(3u32), &p) + 7u32) % &p;
        let y = y2.modpow(&((&p + 1u32) >> 2), &p);
        if &y * &y % &p != y2 {
            continue;
        }
        for odd in [false, true] {
            let yy = if y.bit(0) == odd { y.clone() } else { &p - &y };
            let big_r: Pt = Some((x.clone(), yy));
            for sv in [7u32, 1, 65537] {
                let s = BigUint::from(sv);
                let zg = mul(&z, &g()).map(|(a, b)| (a, &p - b));
                let q = mul(&inv(&r, &n), &add(&mul(&s, &big_r), &zg));
                assert!(ref_verify(&q, &ref_digest(msg), &r, &s));
                let (qx, qy) = q.clone().unwrap();
                for compressed in [true, false] {
                    let pk = if compressed {
                        let mut v = vec![2 + qy.bit(0) as u8];
                        v.extend_from_slice(&be32(&qx));
                        v
                    } else {
                        let mut v = vec![4u8];
                        v.extend_from_slice(&be32(&qx));
                        v.extend_from_slice(&be32(&qy));
                        v
                    };
                    let addr = P2PKHAddress::from_string(&ref_address(0x6f, &ref_hash160(&pk))).unwrap();
                    let c = ref_compact(compressed, 2 | odd as u8, &r, &s);
                    let sig = Signature::from_compact_bytes(&c).unwrap();
                    assert!(all_verify(msg, &sig, &addr), "r={} odd={} s={} c={}", rv, odd, sv, compressed);
                    assert!(!all_verify(b"reduced abscissb", &sig, &addr));
                    // without the reduced bit it is a signature of some other key
                    let c2 = ref_compact(compressed, odd as u8, &r, &s);
                    assert!(!all_verify(msg, &Signature::from_compact_bytes(&c2).unwrap(), &addr));
                    found += 1;
                }
            }
        }
    }
    println!("reduced abscissa cases checked: {}", found);
    assert!(found > 20);
}

#[test]
fn e19_other_signing_schemes_do_not_cross_over() {
    let mut rng = Rng(1919);
    for _ in 0..30 {
        let d = rng.key();
        let key = lib_key(&d, rng.next() % 2 == 0);
        let addr = lib_addr(&key);
        let msg = rng.rbytes(100);
        // plain SHA256 message signature of the same text, and of the magic message
        assert!(!all_verify(&msg, &key.sign_message(&msg).unwrap(), &addr));
        assert!(!all_verify(&msg, &key.sign_message(&ref_magic(&msg)).unwrap(), &addr));
        // random nonce signatures over the magic message are BSM signatures
        for rev in [false, true] {
            let s = ECDSA::sign_with_random_k(&key, &ref_magic(&msg), SigningHash::Sha256d, rev).unwrap();
            let back = Signature::from_compact_bytes(&s.to_compact_bytes(None)).unwrap();
            assert!(all_verify(&msg, &back, &addr));
            assert!(ref_verify(&mul(&d, &g()), &ref_digest(&msg), &BigUint::from_bytes_be(&s.r()), &BigUint::from_bytes_be(&s.s())));
        }
    }
    // WIF of another network (version byte 0xef) gives the same signer
    for compressed in [true, false] {
        let d = big("c0ffee0000000000000000000000000000000000000000000000000000000001");
        let mut w = vec![0xefu8];
        w.extend_from_slice(&be32(&d));
        if compressed {
            w.push(1);
        }
        let ck = sha256(&sha256(&w));
        w.extend_from_slice(&ck[0..4]);
        let key = PrivateKey::from_wif(&bs58::encode(w).into_string()).unwrap();
        let sig = BSM::sign_message(&key, b"testnet wif").unwrap();
        let addr = P2PKHAddress::from_string(&ref_address(0x6f, &ref_hash160(&ref_pubkey_bytes(&d, compressed)))).unwrap();
        assert!(all_verify(b"testnet wif", &sig, &addr));
        assert_eq!(sig.to_compact_bytes(None), BSM::sign_message(&lib_key(&d, compressed), b"testnet wif").unwrap().to_compact_bytes(None));
    }
}

#[test]
fn e20_extreme_digest_values_at_digest_level() {
    // a message digest can be any 32 byte value: zero, values at and above the group order. Digest level entry points of the
    // same sign / recover / verify code are used because a preimage of such digests cannot be produced.
    let n = n();
    let digests: Vec<BigUint> = vec![
        BigUint::from(0u32),
        BigUint::from(1u32),
        &n - 1u32,
        n.clone(),
        &n + 1u32,
        big(&"F".repeat(64)),
        big("00000000000000000000000000000000FFFFFFFFFFFFFFFFFFFFFFFFFFFFFFFF"),
    ];
    let mut rng = Rng(2020);
    let mut ds = special_keys();
    ds.push(rng.key());
    for d in &ds {
        for zb in &digests {
            for compressed in [true, false] {
                let z = be32(zb);
                let key = lib_key(d, compressed);
                let sig = ECDSA::sign_digest_with_deterministic_k(&key, &z).unwrap();
                let c = sig.to_compact_bytes(None);
                let back = Signature::from_compact_bytes(&c).unwrap();
                let pk = ref_pubkey_bytes(d, compressed);
                assert_eq!(back.recover_public_key_from_digest(&z).unwrap().to_bytes().unwrap(), pk, "d={:x} z={:x}", d, zb);
                assert!(ECDSA::verify_hashbuf(&z, &PublicKey::from_bytes(&pk).unwrap(), &back).unwrap());
                assert!(ref_verify(&mul(d, &g()), &z, &BigUint::from_bytes_be(&c[1..33]), &BigUint::from_bytes_be(&c[33..65])));
                // header byte per reference
                let k = ref_rfc6979(d, &z);
                let (r, s, recid) = ref_sign_with_k(d, &k, &z);
                assert_eq!(c, ref_compact(compressed, recid, &r, &s));
            }
        }
    }
    // public key serde form keeps the form, and so the address
    for compressed in [true, false] {
        let key = lib_key(&big("77"), compressed);
        let pk = key.to_public_key().unwrap();
        let pk2: PublicKey = serde_json::from_str(&serde_json::to_string(&pk).unwrap()).unwrap();
        assert_eq!(pk2, pk);
        let sig = BSM::sign_message(&key, b"serde").unwrap();
        assert!(all_verify(b"serde", &sig, &pk2.to_p2pkh_address().unwrap()));
        let other = if compressed { pk2.to_decompressed().unwrap() } else { pk2.to_compressed().unwrap() };
        assert!(!all_verify(b"serde", &sig, &other.to_p2pkh_address().unwrap()));
    }
}

#[test]
fn e21_degenerate_signatures_are_errors_not_panics() {
    // s = z / k with R = kG makes the recovered point the point at infinity: no key, so no address can match
    let msg = b"infinity";
    let z = BigUint::from_bytes_be(&ref_digest(msg)) % n();
    for kv in [1u32, 2, 3] {
        let k = BigUint::from(kv);
        let (rx, ry) = mul(&k, &g()).unwrap();
        let s = &z * inv(&k, &n()) % n();
        for compressed in [true, false] {
            let c = ref_compact(compressed, ry.bit(0) as u8, &(rx.clone() % n()), &s);
            let sig = Signature::from_compact_bytes(&c).unwrap();
            assert!(sig.recover_public_key(&ref_magic(msg), SigningHash::Sha256d).is_err());
            assert!(!all_verify(msg, &sig, &lib_addr(&lib_key(&BigUint::from(1u32), compressed))));
        }
    }
    // r or s of zero, r or s at or above the order, bad headers and lengths never build a signature
    let one = be32(&BigUint::from(1u32));
    for (r, s) in [([0u8; 32], one), (one, [0u8; 32]), (be32(&n()), one), (one, be32(&n())), ([0xff; 32], one)] {
        let mut c = vec![31u8];
        c.extend_from_slice(&r);
        c.extend_from_slice(&s);
        assert!(Signature::from_compact_bytes(&c).is_err());
    }
    for hdr in (0u8..27).chain(35..=255) {
        let mut c = vec![hdr];
        c.extend_from_slice(&one);
        c.extend_from_slice(&one);
        assert!(Signature::from_compact_bytes(&c).is_err(), "header {}", hdr);
    }
    assert!(Signature::from_compact_bytes(&[]).is_err());
    // xpub derived address against xpriv derived signer
    let xprv = ExtendedPrivateKey::from_seed(&[9u8; 64]).unwrap();
    let xpub = ExtendedPublicKey::from_xpriv(&xprv);
    let child_prv = xprv.derive_from_path("m/0/7").unwrap().get_private_key();
    let child_pub = xpub.derive_from_path("m/0/7").unwrap().get_public_key();
    let sig = BSM::sign_message(&child_prv, b"xpub").unwrap();
    assert!(all_verify(b"xpub", &sig, &child_pub.to_p2pkh_address().unwrap()));
    let d = BigUint::from_bytes_be(&child_prv.to_bytes());
    assert_eq!(child_pub.to_bytes().unwrap(), ref_pubkey_bytes(&d, true));
}
