// Hunt for violations of PROPERTY C12 (Bitcoin Signed Message sign/verify).
// Everything under `reference` is written from the specifications (FIPS 180-4, RIPEMD-160 paper,
// SEC1 4.1.3/4.1.4/4.1.6, RFC 6979, Bitcoin Core's CompactSize / MessageHash / MessageVerify)
// and does not call the library or the crates the library uses for the same job.
#![allow(non_snake_case, dead_code, clippy::all)]

use bsv::{ChainParams, P2PKHAddress, PrivateKey, PublicKey, RecoveryInfo, Signature, SigningHash, BSM, ECDSA};
use num_bigint::BigUint;
use num_traits::{One, Zero};

mod reference {
    use super::*;

    // ---------------------------------------------------------------- SHA-256 (FIPS 180-4)
    const K256: [u32; 64] = [
        0x428a2f98, 0x71374491, 0xb5c0fbcf, 0xe9b5dba5, 0x3956c25b, 0x59f111f1, 0x923f82a4, 0xab1c5ed5, 0xd807aa98, 0x12835b01, 0x243185be, 0x550c7dc3, 0x72be5d74, 0x80deb1fe, 0x9bdc06a7,
        0xc19bf174, 0xe49b69c1, 0xefbe4786, 0x0fc19dc6, 0x240ca1cc, 0x2de92c6f, 0x4a7484aa, 0x5cb0a9dc, 0x76f988da, 0x983e5152, 0xa831c66d, 0xb00327c8, 0xbf597fc7, 0xc6e00bf3, 0xd5a79147,
        0x06ca6351, 0x14292967, 0x27b70a85, 0x2e1b2138, 0x4d2c6dfc, 0x53380d13, 0x650a7354, 0x766a0abb, 0x81c2c92e, 0x92722c85, 0xa2bfe8a1, 0xa81a664b, 0xc24b8b70, 0xc76c51a3, 0xd192e819,
        0xd6990624, 0xf40e3585, 0x106aa070, 0x19a4c116, 0x1e376c08, 0x2748774c, 0x34b0bcb5, 0x391c0cb3, 0x4ed8aa4a, 0x5b9cca4f, 0x682e6ff3, 0x748f82ee, 0x78a5636f, 0x84c87814, 0x8cc70208,
        0x90befffa, 0xa4506ceb, 0xbef9a3f7, 0xc67178f2,
    ];

    pub fn sha256(data: &[u8]) -> [u8; 32] {
        let mut h: [u32; 8] = [0x6a09e667, 0xbb67ae85, 0x3c6ef372, 0xa54ff53a, 0x510e527f, 0x9b05688c, 0x1f83d9ab, 0x5be0cd19];
        let mut msg = data.to_vec();
        let bitlen = (data.len() as u64).wrapping_mul(8);
        msg.push(0x80);
        while msg.len() % 64 != 56 {
            msg.push(0);
        }
        msg.extend_from_slice(&bitlen.to_be_bytes());
        for chunk in msg.chunks(64) {
            let mut w = [0u32; 64];
            for i in 0..16 {
                w[i] = u32::from_be_bytes([chunk[4 * i], chunk[4 * i + 1], chunk[4 * i + 2], chunk[4 * i + 3]]);
            }
            for i in 16..64 {
                let s0 = w[i - 15].rotate_right(7) ^ w[i - 15].rotate_right(18) ^ (w[i - 15] >> 3);
                let s1 = w[i - 2].rotate_right(17) ^ w[i - 2].rotate_right(19) ^ (w[i - 2] >> 10);
                w[i] = w[i - 16].wrapping_add(s0).wrapping_add(w[i - 7]).wrapping_add(s1);
            }
            let (mut a, mut b, mut c, mut d, mut e, mut f, mut g, mut hh) = (h[0], h[1], h[2], h[3], h[4], h[5], h[6], h[7]);
            for i in 0..64 {
                let s1 = e.rotate_right(6) ^ e.rotate_right(11) ^ e.rotate_right(25);
                let ch = (e & f) ^ (!e & g);
                let t1 = hh.wrapping_add(s1).wrapping_add(ch).wrapping_add(K256[i]).wrapping_add(w[i]);
                let s0 = a.rotate_right(2) ^ a.rotate_right(13) ^ a.rotate_right(22);
                let maj = (a & b) ^ (a & c) ^ (b & c);
                let t2 = s0.wrapping_add(maj);
                hh = g;
                g = f;
                f = e;
                e = d.wrapping_add(t1);
                d = c;
                c = b;
                b = a;
                a = t1.wrapping_add(t2);
            }
            h[0] = h[0].wrapping_add(a);
            h[1] = h[1].wrapping_add(b);
            h[2] = h[2].wrapping_add(c);
            h[3] = h[3].wrapping_add(d);
            h[4] = h[4].wrapping_add(e);
            h[5] = h[5].wrapping_add(f);
            h[6] = h[6].wrapping_add(g);
            h[7] = h[7].wrapping_add(hh);
        }
        let mut out = [0u8; 32];
        for i in 0..8 {
            out[4 * i..4 * i + 4].copy_from_slice(&h[i].to_be_bytes());
        }
        out
    }

    pub fn sha256d(data: &[u8]) -> [u8; 32] {
        sha256(&sha256(data))
    }

    pub fn hmac_sha256(key: &[u8], data: &[u8]) -> [u8; 32] {
        let mut k = [0u8; 64];
        if key.len() > 64 {
            k[..32].copy_from_slice(&sha256(key));
        } else {
            k[..key.len()].copy_from_slice(key);
        }
        let mut inner: Vec<u8> = k.iter().map(|b| b ^ 0x36).collect();
        inner.extend_from_slice(data);
        let ih = sha256(&inner);
        let mut outer: Vec<u8> = k.iter().map(|b| b ^ 0x5c).collect();
        outer.extend_from_slice(&ih);
        sha256(&outer)
    }

    // ---------------------------------------------------------------- RIPEMD-160
    const RL: [usize; 80] = [
        0, 1, 2, 3, 4, 5, 6, 7, 8, 9, 10, 11, 12, 13, 14, 15, 7, 4, 13, 1, 10, 6, 15, 3, 12, 0, 9, 5, 2, 14, 11, 8, 3, 10, 14, 4, 9, 15, 8, 1, 2, 7, 0, 6, 13, 11, 5, 12, 1, 9, 11, 10, 0, 8, 12, 4,
        13, 3, 7, 15, 14, 5, 6, 2, 4, 0, 5, 9, 7, 12, 2, 10, 14, 1, 3, 8, 11, 6, 15, 13,
    ];
    const RR: [usize; 80] = [
        5, 14, 7, 0, 9, 2, 11, 4, 13, 6, 15, 8, 1, 10, 3, 12, 6, 11, 3, 7, 0, 13, 5, 10, 14, 15, 8, 12, 4, 9, 1, 2, 15, 5, 1, 3, 7, 14, 6, 9, 11, 8, 12, 2, 10, 0, 4, 13, 8, 6, 4, 1, 3, 11, 15, 0, 5,
        12, 2, 13, 9, 7, 10, 14, 12, 15, 10, 4, 1, 5, 8, 7, 6, 2, 13, 14, 0, 3, 9, 11,
    ];
    const SL: [u32; 80] = [
        11, 14, 15, 12, 5, 8, 7, 9, 11, 13, 14, 15, 6, 7, 9, 8, 7, 6, 8, 13, 11, 9, 7, 15, 7, 12, 15, 9, 11, 7, 13, 12, 11, 13, 6, 7, 14, 9, 13, 15, 14, 8, 13, 6, 5, 12, 7, 5, 11, 12, 14, 15, 14,
        15, 9, 8, 9, 14, 5, 6, 8, 6, 5, 12, 9, 15, 5, 11, 6, 8, 13, 12, 5, 12, 13, 14, 11, 8, 5, 6,
    ];
    const SR: [u32; 80] = [
        8, 9, 9, 11, 13, 15, 15, 5, 7, 7, 8, 11, 14, 14, 12, 6, 9, 13, 15, 7, 12, 8, 9, 11, 7, 7, 12, 7, 6, 15, 13, 11, 9, 7, 15, 11, 8, 6, 6, 14, 12, 13, 5, 14, 13, 13, 7, 5, 15, 5, 8, 11, 14, 14,
        6, 14, 6, 9, 12, 9, 12, 5, 15, 8, 8, 5, 12, 9, 12, 5, 14, 6, 8, 13, 6, 5, 15, 13, 11, 11,
    ];
    const KL: [u32; 5] = [0x00000000, 0x5A827999, 0x6ED9EBA1, 0x8F1BBCDC, 0xA953FD4E];
    const KR: [u32; 5] = [0x50A28BE6, 0x5C4DD124, 0x6D703EF3, 0x7A6D76E9, 0x00000000];

    fn rf(j: usize, x: u32, y: u32, z: u32) -> u32 {
        match j / 16 {
            0 => x ^ y ^ z,
            1 => (x & y) | (!x & z),
            2 => (x | !y) ^ z,
            3 => (x & z) | (y & !z),
            _ => x ^ (y | !z),
        }
    }

    pub fn ripemd160(data: &[u8]) -> [u8; 20] {
        let mut h: [u32; 5] = [0x67452301, 0xEFCDAB89, 0x98BADCFE, 0x10325476, 0xC3D2E1F0];
        let mut msg = data.to_vec();
        let bitlen = (data.len() as u64).wrapping_mul(8);
        msg.push(0x80);
        while msg.len() % 64 != 56 {
            msg.push(0);
        }
        msg.extend_from_slice(&bitlen.to_le_bytes());
        for chunk in msg.chunks(64) {
            let mut x = [0u32; 16];
            for i in 0..16 {
                x[i] = u32::from_le_bytes([chunk[4 * i], chunk[4 * i + 1], chunk[4 * i + 2], chunk[4 * i + 3]]);
            }
            let (mut al, mut bl, mut cl, mut dl, mut el) = (h[0], h[1], h[2], h[3], h[4]);
            let (mut ar, mut br, mut cr, mut dr, mut er) = (h[0], h[1], h[2], h[3], h[4]);
            for j in 0..80 {
                let t = al.wrapping_add(rf(j, bl, cl, dl)).wrapping_add(x[RL[j]]).wrapping_add(KL[j / 16]).rotate_left(SL[j]).wrapping_add(el);
                al = el;
                el = dl;
                dl = cl.rotate_left(10);
                cl = bl;
                bl = t;
                let t = ar.wrapping_add(rf(79 - j, br, cr, dr)).wrapping_add(x[RR[j]]).wrapping_add(KR[j / 16]).rotate_left(SR[j]).wrapping_add(er);
                ar = er;
                er = dr;
                dr = cr.rotate_left(10);
                cr = br;
                br = t;
            }
            let t = h[1].wrapping_add(cl).wrapping_add(dr);
            h[1] = h[2].wrapping_add(dl).wrapping_add(er);
            h[2] = h[3].wrapping_add(el).wrapping_add(ar);
            h[3] = h[4].wrapping_add(al).wrapping_add(br);
            h[4] = h[0].wrapping_add(bl).wrapping_add(cr);
            h[0] = t;
        }
        let mut out = [0u8; 20];
        for i in 0..5 {
            out[4 * i..4 * i + 4].copy_from_slice(&h[i].to_le_bytes());
        }
        out
    }

    pub fn hash160(data: &[u8]) -> [u8; 20] {
        ripemd160(&sha256(data))
    }

    // ---------------------------------------------------------------- Base58 / Base64
    const B58: &[u8] = b"123456789ABCDEFGHJKLMNPQRSTUVWXYZabcdefghijkmnopqrstuvwxyz";

    pub fn b58encode(data: &[u8]) -> String {
        let mut n = BigUint::from_bytes_be(data);
        let fifty_eight = BigUint::from(58u32);
        let mut out: Vec<u8> = vec![];
        while !n.is_zero() {
            let rem = (&n % &fifty_eight).to_u32_digits();
            let d = if rem.is_empty() { 0 } else { rem[0] };
            out.push(B58[d as usize]);
            n /= &fifty_eight;
        }
        for b in data {
            if *b == 0 {
                out.push(b'1');
            } else {
                break;
            }
        }
        out.reverse();
        String::from_utf8(out).unwrap()
    }

    pub fn b58decode(s: &str) -> Vec<u8> {
        let mut n = BigUint::zero();
        for c in s.bytes() {
            let d = B58.iter().position(|x| *x == c).expect("base58 char");
            n = n * 58u32 + d as u32;
        }
        let mut out = vec![];
        for c in s.bytes() {
            if c == b'1' {
                out.push(0u8);
            } else {
                break;
            }
        }
        if !n.is_zero() {
            out.extend_from_slice(&n.to_bytes_be());
        }
        out
    }

    pub fn address_string(prefix: u8, h160: &[u8; 20]) -> String {
        let mut payload = vec![prefix];
        payload.extend_from_slice(h160);
        let chk = sha256d(&payload);
        payload.extend_from_slice(&chk[..4]);
        b58encode(&payload)
    }

    pub fn b64decode(s: &str) -> Vec<u8> {
        let alphabet = b"ABCDEFGHIJKLMNOPQRSTUVWXYZabcdefghijklmnopqrstuvwxyz0123456789+/";
        let mut bits: u32 = 0;
        let mut nbits = 0;
        let mut out = vec![];
        for c in s.bytes() {
            if c == b'=' {
                break;
            }
            let v = alphabet.iter().position(|x| *x == c).expect("base64 char") as u32;
            bits = (bits << 6) | v;
            nbits += 6;
            if nbits >= 8 {
                nbits -= 8;
                out.push(((bits >> nbits) & 0xff) as u8);
            }
        }
        out
    }

    // ---------------------------------------------------------------- CompactSize + message hash
    pub fn compact_size(n: u64) -> Vec<u8> {
        // Bitcoin Core serialize.h WriteCompactSize
        if n < 253 {
            vec![n as u8]
        } else if n <= 0xffff {
            let mut v = vec![253u8];
            v.extend_from_slice(&(n as u16).to_le_bytes());
            v
        } else if n <= 0xffff_ffff {
            let mut v = vec![254u8];
            v.extend_from_slice(&(n as u32).to_le_bytes());
            v
        } else {
            let mut v = vec![255u8];
            v.extend_from_slice(&n.to_le_bytes());
            v
        }
    }

    pub fn magic_preimage(msg: &[u8]) -> Vec<u8> {
        let magic = b"Bitcoin Signed Message:\n";
        let mut v = compact_size(magic.len() as u64);
        v.extend_from_slice(magic);
        v.extend_from_slice(&compact_size(msg.len() as u64));
        v.extend_from_slice(msg);
        v
    }

    pub fn magic_hash(msg: &[u8]) -> [u8; 32] {
        sha256d(&magic_preimage(msg))
    }

    // ---------------------------------------------------------------- secp256k1
    pub fn p() -> BigUint {
        BigUint::parse_bytes(b"FFFFFFFFFFFFFFFFFFFFFFFFFFFFFFFFFFFFFFFFFFFFFFFFFFFFFFFEFFFFFC2F", 16).unwrap()
    }
    pub fn n() -> BigUint {
        BigUint::parse_bytes(b"FFFFFFFFFFFFFFFFFFFFFFFFFFFFFFFEBAAEDCE6AF48A03BBFD25E8CD0364141", 16).unwrap()
    }
    pub fn g() -> Pt {
        Some((
            BigUint::parse_bytes(b"79BE667EF9DCBBAC55A06295CE870B07029BFCDB2DCE28D959F2815B16F81798", 16).unwrap(),
            BigUint::parse_bytes(b"483ADA7726A3C4655DA4FBFC0E1108A8FD17B448A68554199C47D08FFB10D4B8", 16).unwrap(),
        ))
    }

    pub type Pt = Option<(BigUint, BigUint)>; // None = point at infinity
    type Jac = (BigUint, BigUint, BigUint); // z = 0 : infinity

    fn sub(a: &BigUint, b: &BigUint, m: &BigUint) -> BigUint {
        ((a % m) + m - (b % m)) % m
    }

    pub fn inv(a: &BigUint, m: &BigUint) -> BigUint {
        a.modpow(&(m - 2u32), m)
    }

    fn jdouble(pt: &Jac, p: &BigUint) -> Jac {
        let (x, y, z) = pt;
        if z.is_zero() || y.is_zero() {
            return (BigUint::one(), BigUint::one(), BigUint::zero());
        }
        let y2 = (y * y) % p;
        let s = (BigUint::from(4u32) * x * &y2) % p;
        let m = (BigUint::from(3u32) * x * x) % p;
        let x3 = sub(&((&m * &m) % p), &((&s * 2u32) % p), p);
        let y3 = sub(&((&m * sub(&s, &x3, p)) % p), &((BigUint::from(8u32) * &y2 * &y2) % p), p);
        let z3 = (BigUint::from(2u32) * y * z) % p;
        (x3, y3, z3)
    }

    fn jadd(a: &Jac, b: &Jac, p: &BigUint) -> Jac {
        if a.2.is_zero() {
            return b.clone();
        }
        if b.2.is_zero() {
            return a.clone();
        }
        let z1z1 = (&a.2 * &a.2) % p;
        let z2z2 = (&b.2 * &b.2) % p;
        let u1 = (&a.0 * &z2z2) % p;
        let u2 = (&b.0 * &z1z1) % p;
        let s1 = (&a.1 * &z2z2 % p * &b.2) % p;
        let s2 = (&b.1 * &z1z1 % p * &a.2) % p;
        if u1 == u2 {
            if s1 != s2 {
                return (BigUint::one(), BigUint::one(), BigUint::zero());
            }
            return jdouble(a, p);
        }
        let h = sub(&u2, &u1, p);
        let r = sub(&s2, &s1, p);
        let h2 = (&h * &h) % p;
        let h3 = (&h2 * &h) % p;
        let u1h2 = (&u1 * &h2) % p;
        let x3 = sub(&sub(&((&r * &r) % p), &h3, p), &((&u1h2 * 2u32) % p), p);
        let y3 = sub(&((&r * sub(&u1h2, &x3, p)) % p), &((&s1 * &h3) % p), p);
        let z3 = (&h * &a.2 % p * &b.2) % p;
        (x3, y3, z3)
    }

    fn to_jac(pt: &Pt) -> Jac {
        match pt {
            None => (BigUint::one(), BigUint::one(), BigUint::zero()),
            Some((x, y)) => (x.clone(), y.clone(), BigUint::one()),
        }
    }

    fn to_affine(j: &Jac, p: &BigUint) -> Pt {
        if j.2.is_zero() {
            return None;
        }
        let zi = inv(&j.2, p);
        let zi2 = (&zi * &zi) % p;
        let zi3 = (&zi2 * &zi) % p;
        Some(((&j.0 * zi2) % p, (&j.1 * zi3) % p))
    }

    pub fn add(a: &Pt, b: &Pt) -> Pt {
        let p = p();
        to_affine(&jadd(&to_jac(a), &to_jac(b), &p), &p)
    }

    pub fn neg(a: &Pt) -> Pt {
        a.as_ref().map(|(x, y)| (x.clone(), (p() - y) % p()))
    }

    pub fn mul(k: &BigUint, pt: &Pt) -> Pt {
        let p = p();
        let base = to_jac(pt);
        let mut acc: Jac = (BigUint::one(), BigUint::one(), BigUint::zero());
        let bits = k.bits();
        for i in (0..bits).rev() {
            acc = jdouble(&acc, &p);
            if k.bit(i) {
                acc = jadd(&acc, &base, &p);
            }
        }
        to_affine(&acc, &p)
    }

    pub fn on_curve(pt: &Pt) -> bool {
        match pt {
            None => true,
            Some((x, y)) => {
                let p = p();
                (y * y) % &p == (x * x * x + 7u32) % &p
            }
        }
    }

    pub fn lift_x(x: &BigUint, odd: bool) -> Pt {
        let p = p();
        if x >= &p {
            return None;
        }
        let rhs = (x * x * x + 7u32) % &p;
        let y = rhs.modpow(&((&p + 1u32) / 4u32), &p);
        if (&y * &y) % &p != rhs {
            return None;
        }
        let y = if y.bit(0) == odd { y } else { &p - y };
        Some((x.clone(), y))
    }

    pub fn be32(v: &BigUint) -> [u8; 32] {
        let b = v.to_bytes_be();
        assert!(b.len() <= 32);
        let mut out = [0u8; 32];
        out[32 - b.len()..].copy_from_slice(&b);
        out
    }

    pub fn ser_pub(pt: &Pt, compressed: bool) -> Vec<u8> {
        let (x, y) = pt.as_ref().expect("not infinity");
        if compressed {
            let mut v = vec![if y.bit(0) { 3u8 } else { 2u8 }];
            v.extend_from_slice(&be32(x));
            v
        } else {
            let mut v = vec![4u8];
            v.extend_from_slice(&be32(x));
            v.extend_from_slice(&be32(y));
            v
        }
    }

    /// SEC1 4.1.4
    pub fn ecdsa_verify(q: &Pt, z: &[u8; 32], r: &BigUint, s: &BigUint) -> bool {
        let n = n();
        if r.is_zero() || s.is_zero() || r >= &n || s >= &n || q.is_none() {
            return false;
        }
        let e = BigUint::from_bytes_be(z) % &n;
        let w = inv(s, &n);
        let u1 = (&e * &w) % &n;
        let u2 = (r * &w) % &n;
        let pt = add(&mul(&u1, &g()), &mul(&u2, q));
        match pt {
            None => false,
            Some((x, _)) => &(x % &n) == r,
        }
    }

    /// SEC1 4.1.6 with the Bitcoin compact header byte (27 + recid + 4 if compressed). Returns the serialised key.
    pub fn recover(header: u8, r: &BigUint, s: &BigUint, z: &[u8; 32]) -> Option<Vec<u8>> {
        if !(27..=34).contains(&header) {
            return None;
        }
        let n = n();
        if r.is_zero() || s.is_zero() || r >= &n || s >= &n {
            return None;
        }
        let recid = (header - 27) & 3;
        let compressed = (header - 27) & 4 != 0;
        let x = if recid & 2 != 0 { r + &n } else { r.clone() };
        let big_r = lift_x(&x, recid & 1 != 0);
        big_r.as_ref()?;
        let e = BigUint::from_bytes_be(z) % &n;
        let rinv = inv(r, &n);
        let u1 = ((&n - &e) % &n * &rinv) % &n;
        let u2 = (s * &rinv) % &n;
        let q = add(&mul(&u1, &g()), &mul(&u2, &big_r));
        q.as_ref()?;
        Some(ser_pub(&q, compressed))
    }

    /// What Bitcoin Core's MessageVerify does: recover the key, compare its HASH160 with the address's.
    pub fn bsm_verify(msg: &[u8], compact: &[u8], h160: &[u8; 20]) -> bool {
        if compact.len() != 65 {
            return false;
        }
        let r = BigUint::from_bytes_be(&compact[1..33]);
        let s = BigUint::from_bytes_be(&compact[33..65]);
        match recover(compact[0], &r, &s, &magic_hash(msg)) {
            None => false,
            Some(key) => &hash160(&key) == h160,
        }
    }

    pub fn is_low_s(compact: &[u8]) -> bool {
        BigUint::from_bytes_be(&compact[33..65]) <= n() >> 1
    }

    /// RFC 6979 3.2 with HMAC-SHA256, qlen = 256
    pub fn rfc6979_k(d: &BigUint, h1: &[u8; 32]) -> BigUint {
        let n = n();
        let x = be32(d);
        let hz = be32(&(BigUint::from_bytes_be(h1) % &n));
        let mut v = [1u8; 32];
        let mut k = [0u8; 32];
        let cat = |v: &[u8; 32], b: u8, extra: bool| {
            let mut m = v.to_vec();
            m.push(b);
            if extra {
                m.extend_from_slice(&x);
                m.extend_from_slice(&hz);
            }
            m
        };
        k = hmac_sha256(&k, &cat(&v, 0, true));
        v = hmac_sha256(&k, &v);
        k = hmac_sha256(&k, &cat(&v, 1, true));
        v = hmac_sha256(&k, &v);
        loop {
            v = hmac_sha256(&k, &v);
            let cand = BigUint::from_bytes_be(&v);
            if !cand.is_zero() && cand < n {
                return cand;
            }
            k = hmac_sha256(&k, &cat(&v, 0, false));
            v = hmac_sha256(&k, &v);
        }
    }

    /// SEC1 4.1.3 with a given k, low-S normalised as Bitcoin does; returns (recid, r, s)
    pub fn sign_with_k(d: &BigUint, z: &[u8; 32], k: &BigUint) -> (u8, BigUint, BigUint) {
        let n = n();
        let (rx, ry) = mul(k, &g()).unwrap();
        let r = &rx % &n;
        let e = BigUint::from_bytes_be(z) % &n;
        let mut s = (inv(k, &n) * ((e + &r * d) % &n)) % &n;
        let mut recid = (ry.bit(0) as u8) | if rx >= n { 2 } else { 0 };
        if s > (&n >> 1) {
            s = &n - s;
            recid ^= 1;
        }
        (recid, r, s)
    }

    pub fn compact(header: u8, r: &BigUint, s: &BigUint) -> Vec<u8> {
        let mut v = vec![header];
        v.extend_from_slice(&be32(r));
        v.extend_from_slice(&be32(s));
        v
    }

    /// Full reference BSM signature (RFC6979 nonce over the message hash)
    pub fn bsm_sign(d: &BigUint, compressed: bool, msg: &[u8]) -> Vec<u8> {
        let z = magic_hash(msg);
        let k = rfc6979_k(d, &z);
        let (recid, r, s) = sign_with_k(d, &z, &k);
        compact(27 + recid + if compressed { 4 } else { 0 }, &r, &s)
    }

    pub fn pubkey(d: &BigUint, compressed: bool) -> Vec<u8> {
        ser_pub(&mul(d, &g()), compressed)
    }

    // ---------------------------------------------------------------- deterministic PRNG (splitmix64)
    pub struct Rng(pub u64);
    impl Rng {
        pub fn next(&mut self) -> u64 {
            self.0 = self.0.wrapping_add(0x9E3779B97F4A7C15);
            let mut z = self.0;
            z = (z ^ (z >> 30)).wrapping_mul(0xBF58476D1CE4E5B9);
            z = (z ^ (z >> 27)).wrapping_mul(0x94D049BB133111EB);
            z ^ (z >> 31)
        }
        pub fn bytes(&mut self, len: usize) -> Vec<u8> {
            let mut v = Vec::with_capacity(len + 8);
            while v.len() < len {
                v.extend_from_slice(&self.next().to_le_bytes());
            }
            v.truncate(len);
            v
        }
        pub fn below(&mut self, m: u64) -> u64 {
            self.next() % m
        }
        pub fn scalar(&mut self) -> BigUint {
            loop {
                let v = BigUint::from_bytes_be(&self.bytes(32));
                if !v.is_zero() && v < n() {
                    return v;
                }
            }
        }
    }
}

use reference as rf;

// ------------------------------------------------------------------------------------------------ helpers over the library

fn lib_key(d: &BigUint, compressed: bool) -> PrivateKey {
    PrivateKey::from_bytes(&rf::be32(d)).expect("private key").compress_public_key(compressed)
}

fn lib_addr(h160: &[u8; 20], prefix: u8) -> P2PKHAddress {
    let a = P2PKHAddress::from_pubkey_hash(h160).unwrap();
    if prefix == 0 {
        a
    } else {
        a.set_chain_params(&ChainParams::new(prefix, 0xc4, 0xef, 0x043587cf, 0x04358394, 0xf4e5f3f4)).unwrap()
    }
}

/// Runs the four verification entry points and checks that they agree with one another; returns the shared verdict.
fn lib_verify_all(msg: &[u8], sig: &Signature, addr: &P2PKHAddress) -> bool {
    let a = std::panic::catch_unwind(std::panic::AssertUnwindSafe(|| BSM::verify_message(msg, sig, addr)));
    let b = std::panic::catch_unwind(std::panic::AssertUnwindSafe(|| BSM::is_valid_message(msg, sig, addr)));
    let c = std::panic::catch_unwind(std::panic::AssertUnwindSafe(|| addr.verify_bitcoin_message(msg, sig)));
    let d = std::panic::catch_unwind(std::panic::AssertUnwindSafe(|| addr.is_valid_bitcoin_message(msg, sig)));
    assert!(a.is_ok() && b.is_ok() && c.is_ok() && d.is_ok(), "a verification entry point panicked: msg={} sig={}", hex::encode(msg), sig.to_compact_hex(None));
    let a = matches!(a.unwrap(), Ok(true));
    let b = b.unwrap();
    let c = matches!(c.unwrap(), Ok(true));
    let d = d.unwrap();
    assert!(a == b && b == c && c == d, "entry points disagree: verify_message={} is_valid_message={} verify_bitcoin_message={} is_valid_bitcoin_message={}", a, b, c, d);
    a
}

const LENGTHS: [usize; 16] = [0, 1, 2, 75, 76, 252, 253, 254, 255, 256, 257, 65534, 65535, 65536, 65537, 100_000];

fn n_minus(k: u32) -> BigUint {
    rf::n() - k
}

// ------------------------------------------------------------------------------------------------ 1. the reference checks itself

#[test]
fn ok_reference_selfcheck() {
    assert_eq!(hex::encode(rf::sha256(b"abc")), "ba7816bf8f01cfea414140de5dae2223b00361a396177a9cb410ff61f20015ad");
    assert_eq!(hex::encode(rf::sha256(b"")), "e3b0c44298fc1c149afbf4c8996fb92427ae41e4649b934ca495991b7852b855");
    assert_eq!(
        hex::encode(rf::sha256(b"abcdbcdecdefdefgefghfghighijhijkijkljklmklmnlmnomnopnopq")),
        "248d6a61d20638b8e5c026930c3e6039a33ce45964ff2167f6ecedd419db06c1"
    );
    assert_eq!(hex::encode(rf::ripemd160(b"")), "9c1185a5c5e9fc54612808977ee8f548b2258d31");
    assert_eq!(hex::encode(rf::ripemd160(b"abc")), "8eb208f7e05d987a9b044a8e98c6b087f15a0bfc");
    assert_eq!(hex::encode(rf::ripemd160(b"message digest")), "5d0689ef49d2fae572b881b123a85ffa21595f36");
    assert_eq!(hex::encode(rf::ripemd160(b"abcdbcdecdefdefgefghfghighijhijkijkljklmklmnlmnomnopnopq")), "12a053384a9c0c88e405a06c27dcf49ada62eb2b");
    // RFC 4231 test case 2
    assert_eq!(hex::encode(rf::hmac_sha256(b"Jefe", b"what do ya want for nothing?")), "5bdcc146bf60754e6a042426089575c75a003f089d2739839dec58b964ec3843");
    // curve
    assert!(rf::on_curve(&rf::g()));
    assert!(rf::mul(&rf::n(), &rf::g()).is_none());
    let two_g = rf::mul(&BigUint::from(2u32), &rf::g()).unwrap();
    assert_eq!(format!("{:064x}", two_g.0), "c6047f9441ed7d6d3045406e95c07cd85c778e4b8cef3ca7abac09b95c709ee5");
    assert_eq!(rf::add(&rf::g(), &rf::neg(&rf::g())), None);
    // well known addresses of the private key 1
    let one = BigUint::one();
    assert_eq!(rf::address_string(0, &rf::hash160(&rf::pubkey(&one, true))), "1BgGZ9tcN4rm9KBzDn7KprQz87SZ26SAMH");
    assert_eq!(rf::address_string(0, &rf::hash160(&rf::pubkey(&one, false))), "1EHNa6Q4Jz2uvNExL497mE43ikXhwF6kZm");
    // RFC 6979 is checked against secp256k1 vectors commonly used (key 1, "Satoshi Nakamoto", SHA-256)
    let k = rf::rfc6979_k(&one, &rf::sha256(b"Satoshi Nakamoto"));
    assert_eq!(format!("{:064x}", k), "8f8a276c19f4149656b280621e358cce24f5f52542772691ee69063b74f15d15");
    let (_, r, s) = rf::sign_with_k(&one, &rf::sha256(b"Satoshi Nakamoto"), &k);
    assert_eq!(format!("{:064x}", r), "934b1ea10a4b3c1757e2b0c017d0b6143ce3c9a7e6a4a49860d7a6ab210ee3d8");
    assert_eq!(format!("{:064x}", s), "2442ce9d2b916064108014783e923ec36b49743e2ffa1c4496f01a512aafd9e5");
    // a signature made by the reference verifies and recovers in the reference
    let mut rng = rf::Rng(1);
    for i in 0..20 {
        let d = rng.scalar();
        let msg = rng.bytes(i * 7);
        let c = rf::bsm_sign(&d, i % 2 == 0, &msg);
        let key = rf::pubkey(&d, i % 2 == 0);
        assert!(rf::bsm_verify(&msg, &c, &rf::hash160(&key)));
        let r = BigUint::from_bytes_be(&c[1..33]);
        let s = BigUint::from_bytes_be(&c[33..65]);
        assert!(rf::ecdsa_verify(&rf::mul(&d, &rf::g()), &rf::magic_hash(&msg), &r, &s));
    }
    assert_eq!(rf::compact_size(252), vec![252]);
    assert_eq!(rf::compact_size(253), vec![253, 253, 0]);
    assert_eq!(rf::compact_size(65535), vec![253, 255, 255]);
    assert_eq!(rf::compact_size(65536), vec![254, 0, 0, 1, 0]);
    assert_eq!(rf::magic_preimage(b"")[0], 0x18);
}

// ------------------------------------------------------------------------------------------------ 2. published vectors

/// Bitcoin Core src/test/util_tests.cpp (message_sign / message_verify)
#[test]
fn ok_bitcoin_core_vectors() {
    // (the signing half of Core's vector is not used: its private key could not be recalled reliably offline;
    //  the verification half authenticates itself through the reference)
    let expected = rf::b64decode("IPojfrX2dfPnH26UegfbGQQLrdK844DlHq5157/P6h57WyuS/Qsl+h/WSVGDF4MUi4rWSswW38oimDYfNNUBUOk=");
    assert_eq!(expected.len(), 65);
    let addr_bytes = rf::b58decode("15CRxFdyRpGZLW9w8HnHvVduizdL5jKNbs");
    let h160: [u8; 20] = addr_bytes[1..21].try_into().unwrap();
    assert!(rf::bsm_verify(b"Trust no one", &expected, &h160), "vector mis-remembered");
    assert!(rf::is_low_s(&expected));
    // library: verify
    let addr = P2PKHAddress::from_string("15CRxFdyRpGZLW9w8HnHvVduizdL5jKNbs").unwrap();
    let sig = Signature::from_compact_bytes(&expected).unwrap();
    assert!(lib_verify_all(b"Trust no one", &sig, &addr));
    assert!(!lib_verify_all(b"Trust me", &sig, &addr));
    assert!(!lib_verify_all(b"Trust no one ", &sig, &addr));

    // second verification vector of Bitcoin Core
    let sig2 = rf::b64decode("IIcaIENoYW5jZWxsb3Igb24gYnJpbmsgb2Ygc2Vjb25kIGJhaWxvdXQgZm9yIGJhbmtzIAaHRtbCeDZINyavx14=");
    if sig2.len() == 65 {
        let a2 = rf::b58decode("11canuhp9X2NocwCq7xNrQYTmUgZAnLK3");
        let h2: [u8; 20] = a2[1..21].try_into().unwrap();
        let expect = rf::bsm_verify(b"Trust me", &sig2, &h2);
        let lib = match Signature::from_compact_bytes(&sig2) {
            Ok(s) => lib_verify_all(b"Trust me", &s, &P2PKHAddress::from_string("11canuhp9X2NocwCq7xNrQYTmUgZAnLK3").unwrap()),
            Err(_) => false,
        };
        // only compared when S is low (see borderline_high_s)
        if rf::is_low_s(&sig2) {
            assert_eq!(lib, expect, "Core vector 2: reference {} library {}", expect, lib);
        }
        // and must not verify for the first address
        assert!(!rf::bsm_verify(b"Trust me", &sig2, &h160));
    }
}

/// bitcore-message README / tests (testnet key and address)
#[test]
fn ok_bitcore_vector_testnet() {
    let sig = rf::b64decode("H/DIn8uA1scAuKLlCx+/9LnAcJtwQQ0PmcPrJUq90aboLv3fH5fFvY+vmbfOSFEtGarznYli6ShPr9RXwY9UrIY=");
    assert_eq!(sig.len(), 65);
    let a = rf::b58decode("n1ZCYg9YXtB5XCZazLxSmPDa8iwJRZHhGx");
    assert_eq!(a.len(), 25);
    assert_eq!(a[0], 0x6f);
    let h: [u8; 20] = a[1..21].try_into().unwrap();
    assert!(rf::bsm_verify(b"hello, world", &sig, &h), "vector mis-remembered");

    let addr = P2PKHAddress::from_string("n1ZCYg9YXtB5XCZazLxSmPDa8iwJRZHhGx").unwrap();
    let s = Signature::from_compact_bytes(&sig).unwrap();
    if rf::is_low_s(&sig) {
        assert!(lib_verify_all(b"hello, world", &s, &addr), "bitcore testnet vector rejected");
    }
    assert!(!lib_verify_all(b"hello, world!", &s, &addr));

    // signing with the WIF of the vector
    let key = PrivateKey::from_wif("cPBn5A4ikZvBTQ8D7NnvHZYCAxzDZ5Z2TSGW2LkyPiLxqYaJPBW4").unwrap();
    let d = BigUint::from_bytes_be(&key.to_bytes());
    assert_eq!(rf::hash160(&rf::pubkey(&d, true)), h, "WIF and address of the vector do not belong together");
    let made = BSM::sign_message(&key, b"hello, world").unwrap().to_compact_bytes(None);
    assert_eq!(hex::encode(&made), hex::encode(rf::bsm_sign(&d, true, b"hello, world")));
    // (bitcore's published signature uses another nonce than RFC 6979 over the digest; both verify)
    assert!(lib_verify_all(b"hello, world", &Signature::from_compact_bytes(&made).unwrap(), &addr));
}

// ------------------------------------------------------------------------------------------------ 3. the signed digest

/// The signature must be an ECDSA signature over SHA256d(varint(24) magic varint(len) msg): checked with the reference
/// verifier, against the reference public key, for every length class of the prefix.
#[test]
fn ok_signed_digest_all_length_classes() {
    let mut rng = rf::Rng(0xC12);
    for (i, len) in LENGTHS.iter().enumerate() {
        let d = rng.scalar();
        let compressed = i % 2 == 0;
        let msg = rng.bytes(*len);
        let key = lib_key(&d, compressed);
        let sig = BSM::sign_message(&key, &msg).unwrap();
        let c = sig.to_compact_bytes(None);
        assert_eq!(c.len(), 65);
        let r = BigUint::from_bytes_be(&c[1..33]);
        let s = BigUint::from_bytes_be(&c[33..65]);
        let q = rf::mul(&d, &rf::g());
        let z = rf::magic_hash(&msg);
        assert!(rf::ecdsa_verify(&q, &z, &r, &s), "len {}: the library signature is not over the reference digest {}", len, hex::encode(z));
        // and the header recovers the right key in the right form
        assert_eq!(rf::recover(c[0], &r, &s, &z), Some(rf::pubkey(&d, compressed)), "len {} header {}", len, c[0]);
        // identical to the reference signer
        assert_eq!(hex::encode(&c), hex::encode(rf::bsm_sign(&d, compressed, &msg)), "len {}", len);
        // library verifies it, before and after the compact round trip, on several networks
        let h = rf::hash160(&rf::pubkey(&d, compressed));
        for prefix in [0u8, 0x6f, 0x05, 0xff] {
            let addr = lib_addr(&h, prefix);
            assert!(lib_verify_all(&msg, &sig, &addr), "len {} prefix {}", len, prefix);
            let back = Signature::from_compact_bytes(&c).unwrap();
            assert!(lib_verify_all(&msg, &back, &addr), "len {} prefix {} after round trip", len, prefix);
        }
    }
}

/// A wrong digest construction would also show in these: the digests of neighbouring constructions are not accepted.
#[test]
fn ok_neighbouring_preimages_rejected() {
    let d = BigUint::from(0xabcdefu32);
    let key = lib_key(&d, true);
    let h = rf::hash160(&rf::pubkey(&d, true));
    let addr = lib_addr(&h, 0);
    for len in [0usize, 1, 252, 253, 254, 65535, 65536, 65537] {
        let msg = vec![0x61u8; len];
        let sig = BSM::sign_message(&key, &msg).unwrap();
        // message with one more / one fewer byte
        let mut longer = msg.clone();
        longer.push(0x61);
        assert!(!lib_verify_all(&longer, &sig, &addr), "len {}+1 accepted", len);
        if len > 0 {
            assert!(!lib_verify_all(&msg[..len - 1], &sig, &addr), "len {}-1 accepted", len);
        }
        // a message that spells out the length prefix itself
        let mut spelled = rf::compact_size(len as u64);
        spelled.extend_from_slice(&msg);
        assert!(!lib_verify_all(&spelled, &sig, &addr));
        // the message with the magic in front
        assert!(!lib_verify_all(&rf::magic_preimage(&msg), &sig, &addr));
    }
    // a plain ECDSA signature (single SHA-256, no magic) is not a signed message
    let plain = key.sign_message(b"hello").unwrap();
    assert!(!lib_verify_all(b"hello", &plain, &addr));
    // a SHA256d signature over the bare message is not one either
    let bare = ECDSA::sign_with_deterministic_k(&key, b"hello", SigningHash::Sha256d, false).unwrap();
    assert!(!lib_verify_all(b"hello", &bare, &addr));
    // but one over the magic preimage is exactly the signed message
    let over_magic = ECDSA::sign_with_deterministic_k(&key, &rf::magic_preimage(b"hello"), SigningHash::Sha256d, false).unwrap();
    assert!(lib_verify_all(b"hello", &over_magic, &addr));
    assert_eq!(over_magic.to_compact_bytes(None), BSM::sign_message(&key, b"hello").unwrap().to_compact_bytes(None));
}

// ------------------------------------------------------------------------------------------------ 4. randomised agreement with the reference

#[test]
fn ok_random_sign_matches_reference_3000() {
    let mut rng = rf::Rng(20261001);
    for i in 0..3000 {
        let d = rng.scalar();
        let compressed = rng.below(2) == 0;
        let len = match rng.below(10) {
            0 => 0,
            1 => 252 + rng.below(4) as usize,
            2 => 65534 + rng.below(4) as usize,
            _ => rng.below(400) as usize,
        };
        let msg = rng.bytes(len);
        let key = lib_key(&d, compressed);
        let sig = BSM::sign_message(&key, &msg).unwrap();
        let c = sig.to_compact_bytes(None);
        let expect = rf::bsm_sign(&d, compressed, &msg);
        assert_eq!(hex::encode(&c), hex::encode(&expect), "case {} key {:x} compressed {} msg {}", i, d, compressed, hex::encode(&msg));
        assert_eq!(sig.to_compact_hex(None), hex::encode(&expect));
        let back = Signature::from_compact_bytes(&c).unwrap();
        assert_eq!(back, sig, "case {}: round trip changes the signature object", i);
        assert_eq!(back.to_compact_bytes(None), c);

        let h = rf::hash160(&rf::pubkey(&d, compressed));
        let prefix = rng.below(256) as u8;
        let addr = lib_addr(&h, prefix);
        assert_eq!(addr.to_string().unwrap(), rf::address_string(prefix, &h));
        assert!(lib_verify_all(&msg, &back, &addr), "case {}", i);
        // the library's own address of the key
        let own = key.to_public_key().unwrap().to_p2pkh_address().unwrap();
        assert_eq!(own.to_pubkey_hash(), h.to_vec(), "case {}: address of the signing key", i);
        assert!(lib_verify_all(&msg, &sig, &own));
        assert_eq!(hex::encode(key.to_public_key().unwrap().to_bytes().unwrap()), hex::encode(rf::pubkey(&d, compressed)));

        // the other compression form of the same key is another address
        let other_form = lib_addr(&rf::hash160(&rf::pubkey(&d, !compressed)), prefix);
        assert!(!lib_verify_all(&msg, &back, &other_form), "case {}: verified against the other form's address", i);
        // another key
        let d2 = rng.scalar();
        let other_key = lib_addr(&rf::hash160(&rf::pubkey(&d2, compressed)), prefix);
        assert!(!lib_verify_all(&msg, &back, &other_key), "case {}: verified against another key's address", i);
        // another message: one flipped bit, or a changed length
        if len > 0 {
            let mut m2 = msg.clone();
            let bit = rng.below((len * 8) as u64) as usize;
            m2[bit / 8] ^= 1 << (bit % 8);
            assert!(!lib_verify_all(&m2, &back, &addr), "case {}: verified a corrupted message", i);
        }
        let mut m3 = msg.clone();
        m3.push(0);
        assert!(!lib_verify_all(&m3, &back, &addr), "case {}", i);
    }
}

/// Arbitrary 65-byte strings with a legal header: the library must say what the reference says.
/// (High-S inputs are left to borderline_high_s.)
#[test]
fn ok_random_compact_strings_agree_with_reference_2000() {
    let mut rng = rf::Rng(777);
    let mut verified = 0;
    for i in 0..2000 {
        let mut c = rng.bytes(65);
        c[0] = 27 + rng.below(8) as u8;
        if i % 3 == 0 {
            // make r small so that r + n can be a field element
            for b in c[1..17].iter_mut() {
                *b = 0;
            }
        }
        let mlen = rng.below(40) as usize;
        let msg = rng.bytes(mlen);
        let r = BigUint::from_bytes_be(&c[1..33]);
        let s = BigUint::from_bytes_be(&c[33..65]);
        let z = rf::magic_hash(&msg);
        let expect_key = rf::recover(c[0], &r, &s, &z);
        let parsed = Signature::from_compact_bytes(&c);
        let in_range = !r.is_zero() && !s.is_zero() && r < rf::n() && s < rf::n();
        assert_eq!(parsed.is_ok(), in_range, "case {}: from_compact_bytes({})", i, hex::encode(&c));
        let sig = match parsed {
            Ok(s) => s,
            Err(_) => continue,
        };
        // recovery over the magic preimage
        let got = sig.recover_public_key(&rf::magic_preimage(&msg), SigningHash::Sha256d).ok().map(|k| k.to_bytes().unwrap());
        assert_eq!(got.as_ref().map(hex::encode), expect_key.as_ref().map(hex::encode), "case {}: recovered key for {}", i, hex::encode(&c));
        let got2 = sig.recover_public_key_from_digest(&z).ok().map(|k| k.to_bytes().unwrap());
        assert_eq!(got2, expect_key);
        if let Some(key) = expect_key {
            let h = rf::hash160(&key);
            let addr = lib_addr(&h, 0);
            if rf::is_low_s(&c) {
                assert!(lib_verify_all(&msg, &sig, &addr), "case {}: valid signature {} rejected", i, hex::encode(&c));
                verified += 1;
            }
            // other form of the recovered key
            let pt = match key.len() {
                33 => rf::lift_x(&BigUint::from_bytes_be(&key[1..]), key[0] == 3),
                _ => Some((BigUint::from_bytes_be(&key[1..33]), BigUint::from_bytes_be(&key[33..]))),
            };
            let other = rf::ser_pub(&pt, key.len() != 33);
            assert!(!lib_verify_all(&msg, &sig, &lib_addr(&rf::hash160(&other), 0)));
        }
    }
    assert!(verified > 300, "only {} positive cases", verified);
}

// ------------------------------------------------------------------------------------------------ 5. single-bit corruptions

#[test]
fn ok_every_single_bit_of_the_signature() {
    let mut rng = rf::Rng(5);
    for round in 0..6 {
        let d = rng.scalar();
        let compressed = round % 2 == 0;
        let msg = rng.bytes(10 + round * 50);
        let key = lib_key(&d, compressed);
        let c = BSM::sign_message(&key, &msg).unwrap().to_compact_bytes(None);
        let h = rf::hash160(&rf::pubkey(&d, compressed));
        let addr = lib_addr(&h, 0);
        for bit in 0..65 * 8 {
            let mut m = c.clone();
            m[bit / 8] ^= 1 << (bit % 8);
            let expect = rf::bsm_verify(&msg, &m, &h);
            assert!(!expect, "the reference accepts a corrupted signature?!");
            let got = match Signature::from_compact_bytes(&m) {
                Ok(sig) => lib_verify_all(&msg, &sig, &addr),
                Err(_) => false,
            };
            assert!(!got, "round {} bit {}: corrupted signature {} accepted", round, bit, hex::encode(&m));
        }
    }
}

#[test]
fn ok_every_single_bit_of_the_message() {
    let mut rng = rf::Rng(6);
    for len in [1usize, 32, 253, 300] {
        let d = rng.scalar();
        let msg = rng.bytes(len);
        let key = lib_key(&d, true);
        let sig = BSM::sign_message(&key, &msg).unwrap();
        let addr = lib_addr(&rf::hash160(&rf::pubkey(&d, true)), 0);
        assert!(lib_verify_all(&msg, &sig, &addr));
        for bit in 0..len * 8 {
            let mut m = msg.clone();
            m[bit / 8] ^= 1 << (bit % 8);
            assert!(!lib_verify_all(&m, &sig, &addr), "len {} bit {}", len, bit);
        }
    }
}

// ------------------------------------------------------------------------------------------------ 6. the compact encoding

#[test]
fn ok_header_byte_range() {
    let d = BigUint::from(12345u32);
    let c = BSM::sign_message(&lib_key(&d, true), b"x").unwrap().to_compact_bytes(None);
    for hb in 0u16..=255 {
        let mut m = c.clone();
        m[0] = hb as u8;
        let res = std::panic::catch_unwind(|| Signature::from_compact_bytes(&m).is_ok());
        assert!(res.is_ok(), "from_compact_bytes panicked on header {}", hb);
        assert_eq!(res.unwrap(), (27..=34).contains(&(hb as u8)), "header {}", hb);
    }
    for len in [0usize, 1, 63, 64, 66, 130] {
        let v = vec![31u8; len];
        let res = std::panic::catch_unwind(|| Signature::from_compact_bytes(&v).is_ok());
        assert_eq!(res.ok(), Some(false), "length {}", len);
    }
}

#[test]
fn ok_header_selects_address_form() {
    let mut rng = rf::Rng(31);
    for _ in 0..50 {
        let d = rng.scalar();
        let msg = rng.bytes(20);
        for compressed in [true, false] {
            let key = lib_key(&d, compressed);
            let sig = BSM::sign_message(&key, &msg).unwrap();
            let c = sig.to_compact_bytes(None);
            assert_eq!((c[0] - 27) & 4 != 0, compressed, "header {} for compressed={}", c[0], compressed);
            assert!(c[0] >= 27 && c[0] <= 34);
            // toggling the marker moves the signature to the other address, as the reference says
            let mut t = c.clone();
            t[0] = if compressed { t[0] - 4 } else { t[0] + 4 };
            let toggled = Signature::from_compact_bytes(&t).unwrap();
            let h_same = rf::hash160(&rf::pubkey(&d, compressed));
            let h_other = rf::hash160(&rf::pubkey(&d, !compressed));
            assert!(rf::bsm_verify(&msg, &t, &h_other));
            assert!(lib_verify_all(&msg, &toggled, &lib_addr(&h_other, 0)));
            assert!(!lib_verify_all(&msg, &toggled, &lib_addr(&h_same, 0)));
            // the same through the RecoveryInfo override of to_compact_bytes
            let y_odd = (c[0] - 27) & 1 != 0;
            let over = sig.to_compact_bytes(Some(RecoveryInfo::new(y_odd, false, !compressed)));
            assert_eq!(over, t);
            assert_eq!(sig.to_compact_hex(Some(RecoveryInfo::new(y_odd, false, !compressed))), hex::encode(&t));
        }
    }
}

#[test]
fn ok_r_s_out_of_range_rejected() {
    let n = rf::n();
    let one = BigUint::one();
    let zero = BigUint::zero();
    let max = (BigUint::one() << 256u32) - 1u32;
    let bad: Vec<(BigUint, BigUint)> = vec![
        (zero.clone(), one.clone()),
        (one.clone(), zero.clone()),
        (zero.clone(), zero.clone()),
        (n.clone(), one.clone()),
        (one.clone(), n.clone()),
        (&n + 1u32, one.clone()),
        (one.clone(), &n + 1u32),
        (max.clone(), one.clone()),
        (one.clone(), max.clone()),
        (rf::p(), one.clone()),
    ];
    for (r, s) in bad {
        for hb in 27u8..=34 {
            let c = rf::compact(hb, &r, &s);
            let res = std::panic::catch_unwind(|| Signature::from_compact_bytes(&c).is_ok());
            assert_eq!(res.ok(), Some(false), "r={:x} s={:x} header {}", r, s, hb);
        }
    }
    // in range extremes parse, and never verify or panic
    let addr = lib_addr(&[7u8; 20], 0);
    for (r, s) in [(one.clone(), one.clone()), (&n - 1u32, one.clone()), (one.clone(), &n - 1u32), (&n - 1u32, &n - 1u32), (one.clone(), &n >> 1)] {
        for hb in 27u8..=34 {
            let c = rf::compact(hb, &r, &s);
            let sig = Signature::from_compact_bytes(&c).expect("in range");
            assert!(!lib_verify_all(b"abc", &sig, &addr));
            let z = rf::magic_hash(b"abc");
            let expect = rf::recover(hb, &r, &s, &z);
            let got = sig.recover_public_key_from_digest(&z).ok().map(|k| k.to_bytes().unwrap());
            assert_eq!(got, expect, "r={:x} s={:x} header {}", r, s, hb);
            if let (Some(k), true) = (expect, rf::is_low_s(&c)) {
                assert!(lib_verify_all(b"abc", &sig, &lib_addr(&rf::hash160(&k), 0)));
            }
        }
    }
}

/// Recovery ids 2 and 3: R's abscissa is r + n. Such signatures cannot be made by signing (needs a discrete log), but they can be
/// built backwards: pick R with abscissa in [n, p), pick s, and the recovered key is the signer. Verification must accept them
/// for the address of that key (ECDSA-valid by construction, checked with the reference verifier).
#[test]
fn ok_recovery_ids_2_and_3() {
    let n = rf::n();
    let mut found = 0;
    let mut t = 0u32;
    let mut rng = rf::Rng(99);
    while found < 12 {
        t += 1;
        let x = &n + t;
        for odd in [false, true] {
            let big_r = rf::lift_x(&x, odd);
            if big_r.is_none() {
                continue;
            }
            found += 1;
            let r = BigUint::from(t);
            let s = rng.scalar() >> 1; // low S
            let msg = rng.bytes(33);
            let z = rf::magic_hash(&msg);
            for compressed in [false, true] {
                let hb = 27 + 2 + odd as u8 + if compressed { 4 } else { 0 };
                let key = rf::recover(hb, &r, &s, &z).expect("recoverable");
                let pt = match key.len() {
                    33 => rf::lift_x(&BigUint::from_bytes_be(&key[1..]), key[0] == 3),
                    _ => Some((BigUint::from_bytes_be(&key[1..33]), BigUint::from_bytes_be(&key[33..]))),
                };
                assert!(rf::ecdsa_verify(&pt, &z, &r, &s));
                let c = rf::compact(hb, &r, &s);
                let sig = Signature::from_compact_bytes(&c).unwrap();
                let h = rf::hash160(&key);
                assert!(lib_verify_all(&msg, &sig, &lib_addr(&h, 0)), "recid 2/3 signature {} rejected", hex::encode(&c));
                assert_eq!(Signature::from_compact_bytes(&sig.to_compact_bytes(None)).unwrap(), sig);
                assert_eq!(sig.to_compact_bytes(None), c);
                // with the x-reduced bit cleared it is another key (or none)
                let mut c2 = c.clone();
                c2[0] -= 2;
                let sig2 = Signature::from_compact_bytes(&c2).unwrap();
                assert!(!lib_verify_all(&msg, &sig2, &lib_addr(&h, 0)));
            }
        }
    }
}

// ------------------------------------------------------------------------------------------------ 7. special keys, nonces, messages

#[test]
fn ok_special_keys() {
    let n = rf::n();
    let keys: Vec<BigUint> = vec![
        BigUint::one(),
        BigUint::from(2u32),
        BigUint::from(3u32),
        &n - 1u32,
        &n - 2u32,
        &n >> 1,
        (&n >> 1) + 1u32,
        BigUint::one() << 255u32,
        (BigUint::one() << 128u32) - 1u32,
        BigUint::parse_bytes(b"00000000000000000000000000000000000000000000000000000000000000ff", 16).unwrap(),
    ];
    for d in keys {
        for compressed in [true, false] {
            for msg in [&b""[..], b"a", &[0u8; 253][..], &[0xffu8; 70000][..]] {
                let key = lib_key(&d, compressed);
                let sig = BSM::sign_message(&key, msg).unwrap();
                let c = sig.to_compact_bytes(None);
                assert_eq!(hex::encode(&c), hex::encode(rf::bsm_sign(&d, compressed, msg)), "key {:x}", d);
                let h = rf::hash160(&rf::pubkey(&d, compressed));
                assert!(rf::bsm_verify(msg, &c, &h));
                assert!(lib_verify_all(msg, &Signature::from_compact_bytes(&c).unwrap(), &lib_addr(&h, 0x6f)));
                assert!(lib_verify_all(msg, &sig, &key.to_public_key().unwrap().to_p2pkh_address().unwrap()));
            }
        }
    }
    // keys outside [1, n-1] are no keys
    assert!(PrivateKey::from_bytes(&[0u8; 32]).is_err());
    assert!(PrivateKey::from_bytes(&rf::be32(&n)).is_err());
    assert!(PrivateKey::from_bytes(&[0xffu8; 32]).is_err());
}

#[test]
fn ok_sign_message_with_k() {
    let n = rf::n();
    let mut rng = rf::Rng(4242);
    let mut ks: Vec<BigUint> = vec![BigUint::one(), BigUint::from(2u32), &n - 1u32, &n - 2u32, &n >> 1];
    for _ in 0..300 {
        ks.push(rng.scalar());
    }
    for (i, k) in ks.iter().enumerate() {
        let d = if i % 7 == 0 { &n - 1u32 } else { rng.scalar() };
        let compressed = i % 2 == 0;
        let msg = rng.bytes(i % 300);
        let key = lib_key(&d, compressed);
        let eph = PrivateKey::from_bytes(&rf::be32(k)).unwrap();
        let sig = BSM::sign_message_with_k(&key, &eph, &msg).unwrap();
        let c = sig.to_compact_bytes(None);
        let z = rf::magic_hash(&msg);
        let (recid, r, s) = rf::sign_with_k(&d, &z, k);
        let expect = rf::compact(27 + recid + if compressed { 4 } else { 0 }, &r, &s);
        assert_eq!(hex::encode(&c), hex::encode(&expect), "k {:x} key {:x}", k, d);
        let h = rf::hash160(&rf::pubkey(&d, compressed));
        assert!(rf::bsm_verify(&msg, &c, &h));
        assert!(lib_verify_all(&msg, &sig, &lib_addr(&h, 0)));
        assert!(lib_verify_all(&msg, &Signature::from_compact_bytes(&c).unwrap(), &lib_addr(&h, 111)));
        // the ephemeral key's compression flag is irrelevant
        let sig_b = BSM::sign_message_with_k(&key, &eph.compress_public_key(false), &msg).unwrap();
        assert_eq!(sig_b.to_compact_bytes(None), c);
    }
}

#[test]
fn ok_non_utf8_and_binary_messages() {
    let d = BigUint::from(0xdeadbeefu32);
    let msgs: Vec<Vec<u8>> = vec![
        vec![0xff, 0xfe, 0xfd],
        vec![0xc3, 0x28],
        vec![0x00],
        vec![0x00, 0x00],
        vec![0x80; 253],
        b"Bitcoin Signed Message:\n".to_vec(),
        b"\x18Bitcoin Signed Message:\n\x00".to_vec(),
        "\u{1F600} unicode \u{00e9}".as_bytes().to_vec(),
        (0u8..=255).collect(),
    ];
    for compressed in [true, false] {
        let key = lib_key(&d, compressed);
        let h = rf::hash160(&rf::pubkey(&d, compressed));
        let addr = lib_addr(&h, 0);
        let mut sigs = vec![];
        for m in &msgs {
            let sig = BSM::sign_message(&key, m).unwrap();
            assert_eq!(hex::encode(sig.to_compact_bytes(None)), hex::encode(rf::bsm_sign(&d, compressed, m)));
            assert!(lib_verify_all(m, &sig, &addr));
            sigs.push(sig);
        }
        for (i, s) in sigs.iter().enumerate() {
            for (j, m) in msgs.iter().enumerate() {
                assert_eq!(lib_verify_all(m, s, &addr), i == j, "signature {} message {}", i, j);
            }
        }
    }
}

#[test]
fn ok_every_prefix_byte() {
    let d = BigUint::from(424242u32);
    for compressed in [true, false] {
        let key = lib_key(&d, compressed);
        let msg = b"prefix sweep";
        let sig = Signature::from_compact_bytes(&BSM::sign_message(&key, msg).unwrap().to_compact_bytes(None)).unwrap();
        let h = rf::hash160(&rf::pubkey(&d, compressed));
        let h_other = rf::hash160(&rf::pubkey(&(&d + 1u32), compressed));
        for prefix in 0u16..=255 {
            let prefix = prefix as u8;
            // address built in the library
            let addr = lib_addr(&h, prefix);
            assert!(lib_verify_all(msg, &sig, &addr), "prefix {}", prefix);
            // address parsed from the reference's string
            let parsed = P2PKHAddress::from_string(&rf::address_string(prefix, &h)).unwrap();
            assert!(lib_verify_all(msg, &sig, &parsed), "prefix {} parsed", prefix);
            assert_eq!(parsed, addr);
            // derived from the key and moved to the network
            let own = key.to_public_key().unwrap().to_p2pkh_address().unwrap().set_chain_params(&ChainParams::new(prefix, 0, 0, 0, 0, 0)).unwrap();
            assert!(lib_verify_all(msg, &sig, &own));
            let wrong = P2PKHAddress::from_string(&rf::address_string(prefix, &h_other)).unwrap();
            assert!(!lib_verify_all(msg, &sig, &wrong), "prefix {} other key", prefix);
        }
    }
    // the named networks
    let key = lib_key(&d, true);
    let sig = BSM::sign_message(&key, b"m").unwrap();
    for cp in [ChainParams::mainnet(), ChainParams::testnet(), ChainParams::regtest(), ChainParams::stn()] {
        let a = key.to_public_key().unwrap().to_p2pkh_address().unwrap().set_chain_params(&cp).unwrap();
        assert!(lib_verify_all(b"m", &sig, &a));
    }
}

#[test]
fn ok_wif_keys_both_forms() {
    // private key 1 in both WIF forms (well known strings)
    let comp = PrivateKey::from_wif("KwDiBf89QgGbjEhKnhXJuH7LrciVrZi3qYjgd9M7rFU73sVHnoWn").unwrap();
    let uncomp = PrivateKey::from_wif("5HpHagT65TZzG1PH3CSu63k8DbpvD8s5ip4nEB3kEsreAnchuDf").unwrap();
    assert_eq!(comp.to_bytes(), rf::be32(&BigUint::one()).to_vec());
    assert_eq!(uncomp.to_bytes(), rf::be32(&BigUint::one()).to_vec());
    let msg = b"wif";
    let sc = BSM::sign_message(&comp, msg).unwrap();
    let su = BSM::sign_message(&uncomp, msg).unwrap();
    assert_eq!(sc.to_compact_bytes(None), rf::bsm_sign(&BigUint::one(), true, msg));
    assert_eq!(su.to_compact_bytes(None), rf::bsm_sign(&BigUint::one(), false, msg));
    let ac = P2PKHAddress::from_string("1BgGZ9tcN4rm9KBzDn7KprQz87SZ26SAMH").unwrap();
    let au = P2PKHAddress::from_string("1EHNa6Q4Jz2uvNExL497mE43ikXhwF6kZm").unwrap();
    assert!(lib_verify_all(msg, &sc, &ac));
    assert!(lib_verify_all(msg, &su, &au));
    assert!(!lib_verify_all(msg, &sc, &au));
    assert!(!lib_verify_all(msg, &su, &ac));
    assert_eq!(comp.to_public_key().unwrap().to_p2pkh_address().unwrap().to_string().unwrap(), "1BgGZ9tcN4rm9KBzDn7KprQz87SZ26SAMH");
    assert_eq!(uncomp.to_public_key().unwrap().to_p2pkh_address().unwrap().to_string().unwrap(), "1EHNa6Q4Jz2uvNExL497mE43ikXhwF6kZm");
    assert_eq!(PublicKey::from_private_key(&uncomp).to_p2pkh_address().unwrap().to_string().unwrap(), "1EHNa6Q4Jz2uvNExL497mE43ikXhwF6kZm");
    // WIF round trip keeps the form
    let again = PrivateKey::from_wif(&uncomp.to_wif().unwrap()).unwrap();
    assert_eq!(BSM::sign_message(&again, msg).unwrap().to_compact_bytes(None), su.to_compact_bytes(None));
    let again = PrivateKey::from_wif(&comp.to_wif().unwrap()).unwrap();
    assert_eq!(BSM::sign_message(&again, msg).unwrap().to_compact_bytes(None), sc.to_compact_bytes(None));
    // from_hex / from_random default to the compressed form
    let r = PrivateKey::from_random();
    let s = BSM::sign_message(&r, msg).unwrap().to_compact_bytes(None);
    assert!(s[0] >= 31);
    assert!(lib_verify_all(msg, &Signature::from_compact_bytes(&s).unwrap(), &r.to_public_key().unwrap().to_p2pkh_address().unwrap()));
}

#[test]
fn ok_signature_without_recovery_info_is_an_error_not_a_panic() {
    let d = BigUint::from(99u32);
    let key = lib_key(&d, true);
    let sig = BSM::sign_message(&key, b"der").unwrap();
    let der = Signature::from_der(&sig.to_der_bytes()).unwrap();
    let addr = lib_addr(&rf::hash160(&rf::pubkey(&d, true)), 0);
    assert!(!lib_verify_all(b"der", &der, &addr));
    assert!(BSM::verify_message(b"der", &der, &addr).is_err());
    // giving the recovery info back through the compact encoding repairs it
    let c = sig.to_compact_bytes(None);
    let info = RecoveryInfo::from_byte((c[0] - 27) & 3, true);
    let c2 = der.to_compact_bytes(Some(info));
    assert_eq!(c2, c);
    assert!(lib_verify_all(b"der", &Signature::from_compact_bytes(&c2).unwrap(), &addr));
}

#[test]
fn ok_deterministic_and_thread_independent() {
    let d = BigUint::from(31337u32);
    let key = lib_key(&d, false);
    let a = BSM::sign_message(&key, b"same").unwrap().to_compact_bytes(None);
    let handles: Vec<_> = (0..4)
        .map(|_| {
            let k = key.clone();
            std::thread::spawn(move || BSM::sign_message(&k, b"same").unwrap().to_compact_bytes(None))
        })
        .collect();
    for h in handles {
        assert_eq!(h.join().unwrap(), a);
    }
}

#[test]
fn ok_megabyte_messages() {
    let d = BigUint::from(5u32);
    let key = lib_key(&d, true);
    let h = rf::hash160(&rf::pubkey(&d, true));
    for len in [1usize << 20, (1 << 24) + 3] {
        let msg: Vec<u8> = (0..len).map(|i| (i * 31 % 251) as u8).collect();
        let sig = BSM::sign_message(&key, &msg).unwrap();
        assert_eq!(hex::encode(sig.to_compact_bytes(None)), hex::encode(rf::bsm_sign(&d, true, &msg)), "len {}", len);
        assert!(lib_verify_all(&msg, &sig, &lib_addr(&h, 0)));
        let mut m2 = msg.clone();
        m2[len - 1] ^= 0x80;
        assert!(!lib_verify_all(&m2, &sig, &lib_addr(&h, 0)));
    }
}

/// Verification errors: a wrong address gives Err (not Ok(false), not a panic) and is_valid gives false
#[test]
fn ok_result_and_bool_forms_agree() {
    let mut rng = rf::Rng(8);
    for _ in 0..200 {
        let d = rng.scalar();
        let key = lib_key(&d, true);
        let msg = rng.bytes(12);
        let sig = BSM::sign_message(&key, &msg).unwrap();
        let good = lib_addr(&rf::hash160(&rf::pubkey(&d, true)), 0);
        let bad = lib_addr(&rf::hash160(&rng.bytes(33)), 0);
        assert_eq!(BSM::verify_message(&msg, &sig, &good).ok(), Some(true));
        assert!(BSM::is_valid_message(&msg, &sig, &good));
        let r = BSM::verify_message(&msg, &sig, &bad);
        assert!(r.is_err() || r.ok() == Some(false));
        assert!(!BSM::is_valid_message(&msg, &sig, &bad));
        assert!(!bad.is_valid_bitcoin_message(&msg, &sig));
        assert!(good.is_valid_bitcoin_message(&msg, &sig));
        assert_eq!(good.verify_bitcoin_message(&msg, &sig).ok(), Some(true));
    }
}

// ------------------------------------------------------------------------------------------------ 8. borderline: the high-S twin

/// (r, n-s) with the parity bit of the header flipped is a valid ECDSA signature of the same key over the same digest, and
/// Bitcoin Core's verifymessage accepts it (key recovery does not look at the size of s). The library recovers the right key
/// and then refuses the signature because the k256 verifier insists on low S. The statement only promises that signatures
/// MADE by the library verify, and the library only makes low-S ones, so this is recorded as borderline and not as a violation.
#[test]
fn borderline_high_s_twin_is_rejected() {
    let d = BigUint::from(777u32);
    let key = lib_key(&d, true);
    let msg = b"high s";
    let c = BSM::sign_message(&key, msg).unwrap().to_compact_bytes(None);
    let r = BigUint::from_bytes_be(&c[1..33]);
    let s = BigUint::from_bytes_be(&c[33..65]);
    let twin = rf::compact(27 + (((c[0] - 27) & 3) ^ 1) + 4, &r, &(rf::n() - &s));
    let h = rf::hash160(&rf::pubkey(&d, true));
    assert!(rf::bsm_verify(msg, &twin, &h), "the reference accepts the twin");
    let sig = Signature::from_compact_bytes(&twin).unwrap();
    let recovered = sig.recover_public_key(&rf::magic_preimage(msg), SigningHash::Sha256d).unwrap().to_bytes().unwrap();
    assert_eq!(recovered, rf::pubkey(&d, true), "the library recovers the signer from the twin");
    let got = lib_verify_all(msg, &sig, &lib_addr(&h, 0));
    // documents the behaviour as it stands
    assert!(!got, "the library now accepts high-S twins; update the report");
}

// ------------------------------------------------------------------------------------------------ 9. further experiments

/// Flipping the parity bit of the header names another signer: the signature stops verifying for the signing key's address and,
/// as the reference says, verifies for the address of the other recovered key (when S is low, see borderline_high_s).
#[test]
fn ok_parity_flip_moves_to_another_key() {
    let mut rng = rf::Rng(1234);
    for i in 0..200 {
        let d = rng.scalar();
        let compressed = i % 2 == 1;
        let msg = rng.bytes(i);
        let c = BSM::sign_message(&lib_key(&d, compressed), &msg).unwrap().to_compact_bytes(None);
        let mut f = c.clone();
        f[0] = 27 + (((c[0] - 27) & 7) ^ 1);
        let sig = Signature::from_compact_bytes(&f).unwrap();
        let h = rf::hash160(&rf::pubkey(&d, compressed));
        assert!(!lib_verify_all(&msg, &sig, &lib_addr(&h, 0)));
        let r = BigUint::from_bytes_be(&f[1..33]);
        let s = BigUint::from_bytes_be(&f[33..65]);
        let other = rf::recover(f[0], &r, &s, &rf::magic_hash(&msg)).expect("other key");
        assert_ne!(other, rf::pubkey(&d, compressed));
        assert!(lib_verify_all(&msg, &sig, &lib_addr(&rf::hash160(&other), 0)), "case {}", i);
    }
}

/// Library signs, reference verifies (Bitcoin Core's procedure), 4000 more cases with emphasis on the prefix boundaries.
#[test]
fn ok_random_library_signs_reference_verifies_4000() {
    let mut rng = rf::Rng(0xBEEF);
    let boundary = [0usize, 1, 251, 252, 253, 254, 255, 256, 65535, 65536, 65537];
    for i in 0..4000 {
        let d = rng.scalar();
        let compressed = rng.below(2) == 0;
        let len = if i % 40 == 0 { boundary[(i / 40) % boundary.len()] } else { rng.below(300) as usize };
        let msg = rng.bytes(len);
        let key = lib_key(&d, compressed);
        let sig = BSM::sign_message(&key, &msg).unwrap();
        let hexed = sig.to_compact_hex(None);
        let c = hex::decode(&hexed).unwrap();
        let h = rf::hash160(&rf::pubkey(&d, compressed));
        assert!(rf::bsm_verify(&msg, &c, &h), "case {}: key {:x} compressed {} msg {} sig {}", i, d, compressed, hex::encode(&msg), hexed);
        assert!(rf::is_low_s(&c));
        let prefix = rng.below(256) as u8;
        assert!(lib_verify_all(&msg, &Signature::from_compact_bytes(&c).unwrap(), &P2PKHAddress::from_string(&rf::address_string(prefix, &h)).unwrap()));
        // signing again, and signing a clone of the key, give the same bytes
        assert_eq!(BSM::sign_message(&key.clone(), &msg).unwrap().to_compact_bytes(None), c);
    }
}

/// Signatures made for one message / key / form, checked against a grid of the others
#[test]
fn ok_cross_grid() {
    let mut rng = rf::Rng(2);
    let ds: Vec<BigUint> = (0..4).map(|_| rng.scalar()).collect();
    let msgs: Vec<Vec<u8>> = vec![vec![], vec![0], b"a".to_vec(), b"A".to_vec(), vec![b'a'; 252], vec![b'a'; 253], vec![b'a'; 254]];
    let mut all = vec![];
    for (ki, d) in ds.iter().enumerate() {
        for compressed in [true, false] {
            for (mi, m) in msgs.iter().enumerate() {
                let sig = BSM::sign_message(&lib_key(d, compressed), m).unwrap();
                all.push((ki, compressed, mi, Signature::from_compact_bytes(&sig.to_compact_bytes(None)).unwrap()));
            }
        }
    }
    for (ki, compressed, mi, sig) in &all {
        for (kj, d) in ds.iter().enumerate() {
            for form in [true, false] {
                let addr = lib_addr(&rf::hash160(&rf::pubkey(d, form)), 0x6f);
                for (mj, m) in msgs.iter().enumerate() {
                    let expect = *ki == kj && *compressed == form && *mi == mj;
                    assert_eq!(lib_verify_all(m, sig, &addr), expect, "sig({},{},{}) vs ({},{},{})", ki, compressed, mi, kj, form, mj);
                }
            }
        }
    }
}

/// r and s exchanged, r or s of another signature: never the signer
#[test]
fn ok_spliced_signatures() {
    let mut rng = rf::Rng(3);
    for _ in 0..100 {
        let d = rng.scalar();
        let key = lib_key(&d, true);
        let m1 = rng.bytes(20);
        let m2 = rng.bytes(20);
        let a = BSM::sign_message(&key, &m1).unwrap().to_compact_bytes(None);
        let b = BSM::sign_message(&key, &m2).unwrap().to_compact_bytes(None);
        let h = rf::hash160(&rf::pubkey(&d, true));
        let addr = lib_addr(&h, 0);
        let mut cands = vec![];
        let mut swapped = vec![a[0]];
        swapped.extend_from_slice(&a[33..65]);
        swapped.extend_from_slice(&a[1..33]);
        cands.push(swapped);
        let mut ra_sb = a[..33].to_vec();
        ra_sb.extend_from_slice(&b[33..]);
        cands.push(ra_sb);
        let mut rb_sa = b[..33].to_vec();
        rb_sa.extend_from_slice(&a[33..]);
        cands.push(rb_sa);
        for c in cands {
            for m in [&m1, &m2] {
                let expect = rf::bsm_verify(m, &c, &h);
                assert!(!expect);
                if let Ok(sig) = Signature::from_compact_bytes(&c) {
                    assert!(!lib_verify_all(m, &sig, &addr));
                }
            }
        }
    }
}

/// The nonce equal to the signing key, to its negation, and the key 1 with the nonce 1
#[test]
fn ok_nonce_related_to_key() {
    let n = rf::n();
    let mut rng = rf::Rng(17);
    let mut cases: Vec<(BigUint, BigUint)> = vec![(BigUint::one(), BigUint::one()), (&n - 1u32, &n - 1u32), (BigUint::one(), &n - 1u32), (&n - 1u32, BigUint::one())];
    for _ in 0..20 {
        let d = rng.scalar();
        cases.push((d.clone(), d.clone()));
        cases.push((d.clone(), &n - &d));
    }
    for (d, k) in cases {
        for compressed in [true, false] {
            let msg = rng.bytes(9);
            let key = lib_key(&d, compressed);
            let eph = PrivateKey::from_bytes(&rf::be32(&k)).unwrap();
            let z = rf::magic_hash(&msg);
            let (recid, r, s) = rf::sign_with_k(&d, &z, &k);
            let expect = rf::compact(27 + recid + if compressed { 4 } else { 0 }, &r, &s);
            match BSM::sign_message_with_k(&key, &eph, &msg) {
                Ok(sig) => {
                    assert_eq!(hex::encode(sig.to_compact_bytes(None)), hex::encode(&expect), "d {:x} k {:x}", d, k);
                    let h = rf::hash160(&rf::pubkey(&d, compressed));
                    assert!(lib_verify_all(&msg, &Signature::from_compact_bytes(&expect).unwrap(), &lib_addr(&h, 0)));
                }
                Err(e) => assert!(s.is_zero() || r.is_zero(), "d {:x} k {:x}: {:?}", d, k, e),
            }
        }
    }
}

/// Keys that come out of the BIP32 code sign like any other key
#[test]
fn ok_keys_from_extended_keys() {
    use bsv::ExtendedPrivateKey;
    let root = ExtendedPrivateKey::from_seed(&[7u8; 32]).unwrap();
    for path in ["m/0", "m/0'/1", "m/44'/0'/0'/0/5"] {
        let x = root.derive_from_path(path).unwrap();
        let key = x.get_private_key();
        let d = BigUint::from_bytes_be(&key.to_bytes());
        let msg = path.as_bytes();
        let sig = BSM::sign_message(&key, msg).unwrap();
        assert_eq!(hex::encode(sig.to_compact_bytes(None)), hex::encode(rf::bsm_sign(&d, true, msg)));
        assert!(lib_verify_all(msg, &sig, &x.get_public_key().to_p2pkh_address().unwrap()));
        assert!(lib_verify_all(msg, &sig, &lib_addr(&rf::hash160(&rf::pubkey(&d, true)), 0)));
        // held in the uncompressed form: the signing key's own address is the uncompressed one
        let ku = key.compress_public_key(false);
        let su = BSM::sign_message(&ku, msg).unwrap();
        assert_eq!(hex::encode(su.to_compact_bytes(None)), hex::encode(rf::bsm_sign(&d, false, msg)));
        assert!(lib_verify_all(msg, &su, &ku.to_public_key().unwrap().to_p2pkh_address().unwrap()));
        assert!(lib_verify_all(msg, &su, &lib_addr(&rf::hash160(&rf::pubkey(&d, false)), 0)));
        assert!(!lib_verify_all(msg, &su, &x.get_public_key().to_p2pkh_address().unwrap()));
    }
}
