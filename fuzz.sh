#!/bin/bash
# fuzz.sh <target> <runs> <seed> <max_len>  — one libFuzzer campaign (cargo-fuzz, nightly) on a fresh corpus
# seeded with valid encodings. Prints "FUZZ-CRASH <artifact>" for every crashing input; exit 0 none, 1 crash, 2 could not run.
set -u
ROOT="$(cd "$(dirname "${BASH_SOURCE[0]}")" && pwd)"
TARGET="$1"; RUNS="${2:-200000}"; SEED="${3:-0}"; MAXLEN="${4:-4096}"
export CARGO_NET_OFFLINE=true VERIF_ROOT="$ROOT"
cd "$ROOT/harness" || exit 2
RUN="$ROOT/harness/fuzz/run/$TARGET-$$"
rm -rf "$RUN"; mkdir -p "$RUN/corpus" "$RUN/artifacts" "$RUN/seeds"
"$ROOT/harness/target/release/vcheck" --emit-seeds "$RUN/seeds" >/dev/null 2>&1
cp "$RUN/seeds/$TARGET"/* "$RUN/corpus/" 2>/dev/null
[ "$SEED" = "0" ] && SEED=1   # libFuzzer: 0 means random
LOG="$RUN/log"
if ! cargo +nightly fuzz build "$TARGET" >"$RUN/build.log" 2>&1; then
  echo "INCONCLUSIVE: fuzz target $TARGET does not build (see $RUN/build.log)"; exit 2
fi
JOBS="${FUZZ_JOBS:-4}"
# several independent workers with derived seeds; libFuzzer prints to stderr, the library's println! goes to stdout
for j in $(seq 1 "$JOBS"); do
  mkdir -p "$RUN/corpus$j"; cp "$RUN/corpus"/* "$RUN/corpus$j/" 2>/dev/null
  ( cargo +nightly fuzz run "$TARGET" "$RUN/corpus$j" -- -runs=$((RUNS / JOBS)) -seed=$((SEED * 1000 + j)) -max_len="$MAXLEN" -len_control=0 -timeout=60 -rss_limit_mb=4096 -artifact_prefix="$RUN/artifacts/" >/dev/null 2>"$LOG.$j" ) &
done
wait
rc=0
EXECS=$(grep -h "^Done " "$LOG".* 2>/dev/null | awk '{s+=$2} END {print s+0}')
echo "fuzz target=$TARGET executions=$EXECS workers=$JOBS seed=$SEED max_len=$MAXLEN"
for a in "$RUN"/artifacts/*; do
  [ -f "$a" ] || continue
  # libFuzzer's slow-unit-* files report units that took long on this machine at that moment: not failures
  case "$(basename "$a")" in slow-unit-*) continue;; esac
  keep="$ROOT/evidence/replay/fuzz-$TARGET-$(basename "$a")"
  mkdir -p "$ROOT/evidence/replay"; cp "$a" "$keep"
  echo "FUZZ-CRASH $keep"
  rc=1
done
if [ "$EXECS" = "0" ] && [ $rc -eq 0 ]; then echo "INCONCLUSIVE: fuzzer did not run (see $LOG.*)"; tail -5 "$LOG".1; exit 2; fi
rm -rf "$RUN"
exit $rc
