#!/bin/bash
# check.sh <Cxx> <quick|thorough> [--replay <file>]
# Rebuilds the harness against /repo's current working tree (cargo's path-dependency fingerprint
# recompiles `bsv` whenever a file there changed), then runs vcheck.
# exit 0 = property held on everything explored; 1 = VIOLATION line printed; 2 = inconclusive.
set -u
ROOT="$(cd "$(dirname "${BASH_SOURCE[0]}")" && pwd)"
ID="${1:-}"; TIER="${2:-${VERIF_TIER:-quick}}"
if [ -z "$ID" ]; then echo "usage: check.sh <Cxx> <quick|thorough> [--replay file]"; exit 2; fi
shift; [ $# -gt 0 ] && shift
export CARGO_NET_OFFLINE=true
export VERIF_ROOT="$ROOT"
export VERIF_SEED="${VERIF_SEED:-0}"
# make a relative --replay path absolute (we change directory below)
ARGS=()
while [ $# -gt 0 ]; do
  if [ "$1" = "--replay" ] && [ $# -ge 2 ]; then
    case "$2" in /*) ARGS+=("--replay" "$2");; *) ARGS+=("--replay" "$PWD/$2");; esac
    shift 2
  else
    ARGS+=("$1"); shift
  fi
done
cd "$ROOT/harness" || exit 2
BUILD_LOG="$ROOT/harness/target/build-$ID.log"
mkdir -p "$ROOT/harness/target"
if ! cargo build --release --bin vcheck >"$BUILD_LOG" 2>&1; then
  echo "INCONCLUSIVE: the harness does not build against the current /repo tree (see $BUILD_LOG)"
  grep -E "^error" -A6 "$BUILD_LOG" | head -40
  exit 2
fi
"$ROOT/harness/target/release/vcheck" "$ID" "$TIER" "${ARGS[@]}"
rc=$?
# thorough tier: coverage-guided campaigns (libFuzzer) with the same oracles, for the byte-level properties
if [ "$TIER" = "thorough" ] && [ $rc -eq 0 ] && [ ${#ARGS[@]} -eq 0 ]; then
  case "$ID" in
    C01) TARGETS="tx:2000000:2048";;
    C02) TARGETS="script:2000000:1024";;
    C09) TARGETS="decoders:2000000:1024 tx:1000000:2048 script:1000000:1024 asm:1000000:512";;
    C14) TARGETS="interp:400000:256";;
    C16) TARGETS="interp:400000:256 interptx:400000:400";;
    C17) TARGETS="asm:2000000:512";;
    *) TARGETS="";;
  esac
  # the panic-class properties are re-run on a plain release build (wrapping arithmetic takes other paths)
  if [ "$ID" = "C09" ] || [ "$ID" = "C16" ]; then
    if cargo build --profile plain --bin vcheck >"$BUILD_LOG.plain" 2>&1; then
      pout=$(VERIF_NO_EVIDENCE=1 "$ROOT/harness/target/plain/vcheck" "$ID" "$TIER"); prc=$?
      echo "plain build: $(echo "$pout" | head -1)"
      echo "$pout" | grep -E "^VIOLATION|^failing check|^case:|^INCONCLUSIVE"
      PLAIN_SUMMARY="$(echo "$pout" | head -1)"
      [ $prc -eq 1 ] && rc=1
      [ $prc -eq 2 ] && [ $rc -eq 0 ] && rc=2
      rm -f "$ROOT/evidence/$ID.plain-build.json"
    else
      echo "INCONCLUSIVE: plain build of the harness failed (see $BUILD_LOG.plain)"; [ $rc -eq 0 ] && rc=2
    fi
  fi
  FUZZ_SUMMARY=""
  for spec in $TARGETS; do
    IFS=: read -r T RUNS MAXLEN <<<"$spec"
    out=$(FUZZ_JOBS=8 "$ROOT/fuzz.sh" "$T" "$RUNS" "$VERIF_SEED" "$MAXLEN" 2>&1); frc=$?
    echo "$out" | grep -E "^fuzz target|^INCONCLUSIVE"
    FUZZ_SUMMARY="$FUZZ_SUMMARY$(echo "$out" | grep -E '^fuzz target' | head -1);"
    if [ $frc -eq 2 ] && [ $rc -eq 0 ]; then rc=2; fi
    for art in $(echo "$out" | grep '^FUZZ-CRASH ' | cut -d' ' -f2); do
      rp="$ROOT/evidence/replay/$ID-fuzz-$T-$(basename "$art").json"
      "$ROOT/harness/target/release/vcheck" --artifact-case "$ID" "$T" "$art" > "$rp"
      # only a crash that reproduces under this property's own oracle counts for this property
      "$ROOT/harness/target/release/vcheck" "$ID" quick --replay "$rp" >/dev/null 2>&1; arc=$?
      if [ $arc -eq 1 ]; then
        "$ROOT/harness/target/release/vcheck" "$ID" quick --replay "$rp" | grep -v '^VIOLATION'
        echo "VIOLATION property=$ID replay=$rp"
        rc=1
      elif [ $arc -ne 0 ] && [ $rc -eq 0 ]; then
        # a unit that is only slow (libFuzzer's slow-unit report on a loaded machine) or whose replay times out decides nothing
        echo "INCONCLUSIVE: the replay of $art did not finish (exit $arc)"
        rc=2
      fi
    done
  done
  if [ -n "$FUZZ_SUMMARY" ]; then
    PLAIN_SUMMARY="${PLAIN_SUMMARY:-}" python3 - "$ROOT/evidence/$ID.json" "$FUZZ_SUMMARY" <<'PY'
import json, sys
p, summary = sys.argv[1], sys.argv[2]
try:
    e = json.load(open(p))
    runs = [s for s in summary.split(';') if s]
    e['coverage']['libfuzzer_campaigns'] = runs
    e['coverage']['libfuzzer_executions'] = sum(int(x.split('executions=')[1].split()[0]) for x in runs if 'executions=' in x)
    import os
    if os.environ.get('PLAIN_SUMMARY'):
        e['coverage']['plain_release_build_rerun'] = os.environ['PLAIN_SUMMARY']
    json.dump(e, open(p, 'w'), indent=1)
except Exception as ex:
    print('could not record fuzz summary:', ex)
PY
  fi
fi
exit $rc
