#!/bin/bash
# check.sh <Cxx> <quick|thorough> [--replay <file>]
# Rebuilds the harness against /repo's current working tree (cargo's path-dependency fingerprint
# recompiles `bsv` whenever a file there changed), then runs vcheck.
# exit 0 = property held on everything explored; 1 = VIOLATION line printed; 2 = inconclusive.
set -u
ROOT="$(cd "$(dirname "${BASH_SOURCE[0]}")" && pwd)"
ID="${1:-}"; TIER="${2:-${VERIF_TIER:-quick}}"
if [ -z "$ID" ]; then echo "usage: check.sh <Cxx> <quick|thorough> [--replay file]"; exit 2; fi
shift; [ $# -gt 0 ] && shift
export CARGO_NET_OFFLINE=true
export VERIF_ROOT="$ROOT"
export VERIF_SEED="${VERIF_SEED:-0}"
# make a relative --replay path absolute (we change directory below)
ARGS=()
while [ $# -gt 0 ]; do
  if [ "$1" = "--replay" ] && [ $# -ge 2 ]; then
    case "$2" in /*) ARGS+=("--replay" "$2");; *) ARGS+=("--replay" "$PWD/$2");; esac
    shift 2
  else
    ARGS+=("$1"); shift
  fi
done
cd "$ROOT/harness" || exit 2
BUILD_LOG="$ROOT/harness/target/build-$ID.log"
mkdir -p "$ROOT/harness/target"
if ! cargo build --release --bin vcheck >"$BUILD_LOG" 2>&1; then
  echo "INCONCLUSIVE: the harness does not build against the current /repo tree (see $BUILD_LOG)"
  grep -E "^error" -A6 "$BUILD_LOG" | head -40
  exit 2
fi
exec "$ROOT/harness/target/release/vcheck" "$ID" "$TIER" "${ARGS[@]}"
